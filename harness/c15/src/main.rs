//! C15 — expressions, values and contexts are safe to share across threads.
//!
//! Compile-time half: this crate type-checks only if the eight listed types are Send + Sync (the
//! explicit assertions below, and the code that actually shares / moves them).
//! Dynamic half: generated read-only programs evaluated from 2..16 threads sharing one tree and
//! one context; every concurrent result must equal the sequential one.
#![allow(dead_code)]

#[path = "../../checks/src/common.rs"]
mod common;

use std::path::Path;
use std::sync::atomic::{AtomicU64, Ordering};
use std::sync::{mpsc, Arc, Barrier};

use adapt::{build_hashmap_nolog, to_rv, Err as RealErr, HCtx, Tree, Val};
use evalexpr::{
    DefaultNumericTypes, EmptyContext, EmptyContextWithBuiltinFunctions, EvalexprError, Function, HashMapContext, Node, Operator,
    Value,
};
use proptest::strategy::{Strategy, ValueTree};
use proptest::test_runner::{Config, RngSeed, TestRunner};
use refmodel::ast::{render_tokens, Ast, BitChoices};
use refmodel::gen::{self, AstCfg};
use refmodel::interp::Ctx;
use refmodel::tok;
use refmodel::value::RV;
use vcore::serde_json::{json, Value as J};
use vcore::{Local, Report, Tier};

fn assert_send_sync<T: Send + Sync>() {}

/// The compile-time half: one line per type named by the property.
fn static_assertions() {
    assert_send_sync::<Node<DefaultNumericTypes>>();
    assert_send_sync::<Value<DefaultNumericTypes>>();
    assert_send_sync::<EvalexprError<DefaultNumericTypes>>();
    assert_send_sync::<Function<DefaultNumericTypes>>();
    assert_send_sync::<Operator<DefaultNumericTypes>>();
    assert_send_sync::<HashMapContext<DefaultNumericTypes>>();
    assert_send_sync::<EmptyContext<DefaultNumericTypes>>();
    assert_send_sync::<EmptyContextWithBuiltinFunctions<DefaultNumericTypes>>();
}

type Res = Result<RV, RealErr>;

fn res_same(a: &Res, b: &Res) -> bool {
    match (a, b) {
        (Ok(x), Ok(y)) => x.same(y),
        (Err(x), Err(y)) => x == y || format!("{:?}", x) == format!("{:?}", y),
        _ => false,
    }
}

fn res_text(a: &Res) -> String {
    match a {
        Ok(v) => format!("Ok({})", v.canon()),
        Err(e) => format!("Err({:?})", e),
    }
}

struct Batch {
    ctx: Ctx,
    sources: Vec<String>,
    trees: Vec<Tree>,
}

fn gen_batch(runner: &mut TestRunner, size: usize, depth: u32) -> Batch {
    let mut cfg = AstCfg::structural(depth);
    cfg.assignments = false;
    cfg.vars = AstCfg::names(&["a", "b", "c", "x"]);
    cfg.funcs = AstCfg::names(&["f", "g", "min", "str::from", "len", "typeof", "math::abs"]);
    cfg.rich_literals = true;
    let ctx_strategy = gen::arb_ctx(AstCfg::names(&["a", "b", "c", "x"]), AstCfg::names(&["f", "g"]));
    let ctx = ctx_strategy.new_tree(runner).expect("ctx").current();
    let prog = (gen::arb_ast(&cfg), gen::arb_bits());
    let mut sources = Vec::new();
    let mut trees = Vec::new();
    let mut guard = 0;
    while trees.len() < size && guard < size * 20 {
        guard += 1;
        let (ast, bits): (Ast, Vec<bool>) = prog.new_tree(runner).expect("ast").current();
        let src = tok::render_spaced(&render_tokens(&ast, &mut BitChoices::new(&bits)));
        if let Ok(t) = evalexpr::build_operator_tree::<DefaultNumericTypes>(&src) {
            sources.push(src);
            trees.push(t);
        }
    }
    Batch { ctx, sources, trees }
}

/// A rendezvous owned by the harness: a user function blocks until all `parties` threads of the
/// current round are inside the call (or a timeout passes), so that the maximal number of
/// function calls is in flight at the same instant. This is the one place where the harness owns
/// the schedule.
struct Rendezvous {
    arrivals: std::sync::Mutex<u64>,
    cv: std::sync::Condvar,
    parties: AtomicU64,
    timeouts: AtomicU64,
}

impl Rendezvous {
    fn arrive_and_wait(&self) {
        let parties = self.parties.load(Ordering::SeqCst).max(1);
        let mut g = self.arrivals.lock().unwrap();
        let mine = *g;
        *g += 1;
        let goal = (mine / parties + 1) * parties;
        if *g >= goal {
            self.cv.notify_all();
            return;
        }
        let deadline = std::time::Instant::now() + std::time::Duration::from_millis(500);
        while *g < goal {
            let now = std::time::Instant::now();
            if now >= deadline {
                self.timeouts.fetch_add(1, Ordering::Relaxed);
                break;
            }
            let (ng, _) = self.cv.wait_timeout(g, deadline - now).unwrap();
            g = ng;
        }
    }
}

/// Rendezvous programs: small ones, one nested DEEP_SYNC levels deep (the rendezvous happens at the
/// innermost point, so every thread is that deep inside the evaluator at the same instant) and
/// one WIDE_SYNC elements wide (every thread has a large evaluation in flight at the same time).
const DEEP_SYNC: usize = 2500;
const WIDE_SYNC: usize = 60_000;

fn sync_sources(heavy: bool) -> Vec<String> {
    let mut v: Vec<String> =
        ["sync(1) + len(\"ab\")", "f(sync(2))", "sync(a) == a", "str::from(sync(2.5))"].iter().map(|s| s.to_string()).collect();
    if !heavy {
        return v;
    }
    v.push(format!("{}sync(3){}", "(".repeat(DEEP_SYNC), ")".repeat(DEEP_SYNC)));
    v.push(format!("1 + {}sync(4){}", "-(".repeat(DEEP_SYNC / 2), ")".repeat(DEEP_SYNC / 2)));
    let mut wide = String::from("sync(5)");
    for i in 0..WIDE_SYNC {
        wide.push_str(if i % 2 == 0 { ", 1" } else { ", a" });
    }
    v.push(format!("len(({}))", wide));
    v
}

/// All `threads` threads evaluate the same function-calling programs at the same instant.
fn check_rendezvous(rep: &Report, batch_ctx: &Ctx, threads: usize, rounds: usize, heavy: bool, l: &mut Local) {
    use evalexpr::ContextWithMutableFunctions;
    let rv = Arc::new(Rendezvous { arrivals: std::sync::Mutex::new(0), cv: std::sync::Condvar::new(), parties: AtomicU64::new(1), timeouts: AtomicU64::new(0) });
    let mut ctx: HCtx = build_hashmap_nolog(batch_ctx);
    {
        let rv = rv.clone();
        ctx.set_function(
            "sync".into(),
            Function::new(move |v: &Val| {
                rv.arrive_and_wait();
                Ok(v.clone())
            }),
        )
        .expect("set_function");
    }
    let sources = sync_sources(heavy);
    let trees: Vec<Tree> = sources.iter().map(|s| evalexpr::build_operator_tree::<DefaultNumericTypes>(s).expect("sync source builds")).collect();
    // sequential reference (one party: no waiting), on a big stack because of the deep program
    let seq: Vec<Res> = vcore::on_big_stack(|| trees.iter().map(|t| t.eval_with_context(&ctx).map(|v| to_rv(&v))).collect());
    *rv.arrivals.lock().unwrap() = 0;
    rv.parties.store(threads as u64, Ordering::SeqCst);
    let barrier = Barrier::new(threads);
    let evals = AtomicU64::new(0);
    std::thread::scope(|s| {
        for _ in 0..threads {
            let (trees, ctx, seq, barrier, evals, sources) = (&trees, &ctx, &seq, &barrier, &evals, &sources);
            std::thread::Builder::new().stack_size(64 << 20).spawn_scoped(s, move || {
                for _ in 0..rounds {
                    for (j, t) in trees.iter().enumerate() {
                        barrier.wait();
                        let r = t.eval_with_context(ctx).map(|v| to_rv(&v));
                        evals.fetch_add(1, Ordering::Relaxed);
                        if !res_same(&r, &seq[j]) {
                            rep.fail(
                                "rendezvous",
                                "C15/concurrent result differs from the sequential result (all threads inside a user function at once)",
                                json!({"kind": "rendezvous", "src": vcore::clip(&sources[j], 80), "source_index": j, "ctx": common::ctx_to_json(batch_ctx), "threads": threads}),
                                res_text(&seq[j]),
                                res_text(&r),
                                threads,
                            );
                        }
                    }
                }
            }).expect("spawn");
        }
    });
    l.evaluations += evals.load(Ordering::Relaxed);
    l.label_n("rendezvous timeouts (not failures)", rv.timeouts.load(Ordering::Relaxed));
    l.label("rendezvous batch");
    for s in &sources {
        l.nontrivial_key(&format!("rv{}\u{1}{}\u{1}{}", threads, vcore::clip(s, 60), batch_ctx.describe()));
    }
}

fn reads_shared(src: &str) -> bool {
    let toks = tok::lex(src).map(|o| o.toks).unwrap_or_default();
    toks.iter().any(|t| matches!(t, tok::Tok::Ident(_)))
}

fn check_batch(rep: &Report, batch: &Batch, threads: usize, k: usize, l: &mut Local) {
    let ctx: HCtx = build_hashmap_nolog(&batch.ctx);
    let empty = EmptyContext::<DefaultNumericTypes>::default();
    let emptyb = EmptyContextWithBuiltinFunctions::<DefaultNumericTypes>::default();
    let n = batch.trees.len();
    // sequential reference results, computed beforehand
    let seq: Vec<Res> = batch.trees.iter().map(|t| t.eval_with_context(&ctx).map(|v| to_rv(&v))).collect();
    let seq_e: Vec<Res> = batch.trees.iter().map(|t| t.eval_with_context(&empty).map(|v| to_rv(&v))).collect();
    let seq_b: Vec<Res> = batch.trees.iter().map(|t| t.eval_with_context(&emptyb).map(|v| to_rv(&v))).collect();
    let evals = AtomicU64::new(0);
    let barrier = Barrier::new(threads);
    let fail_once = |what: &str, j: usize, expected: &Res, got: &Res, t: usize| {
        rep.fail(
            "concurrent",
            &format!("C15/{}", what),
            json!({"kind": "concurrent", "src": batch.sources[j], "ctx": common::ctx_to_json(&batch.ctx), "threads": t}),
            res_text(expected),
            res_text(got),
            batch.sources[j].len(),
        );
    };
    // (0) first-ever evaluation of freshly built trees happens concurrently: the reference results
    // above were computed on *other* instances, so nothing was warmed up by the oracle
    for round in 0..3 {
        let fresh: Vec<Tree> = batch
            .sources
            .iter()
            .map(|s| evalexpr::build_operator_tree::<DefaultNumericTypes>(s).expect("source built before"))
            .collect();
        let fresh_ctx: HCtx = build_hashmap_nolog(&batch.ctx);
        let barrier0 = Barrier::new(threads);
        std::thread::scope(|s| {
            for i in 0..threads {
                let (fresh, fresh_ctx, seq, barrier0, evals, fail_once) = (&fresh, &fresh_ctx, &seq, &barrier0, &evals, &fail_once);
                s.spawn(move || {
                    barrier0.wait();
                    for jj in 0..n {
                        // all threads walk the trees in the same order, so first evaluations collide
                        let j = if round % 2 == 0 { jj } else { (jj + i) % n };
                        let r = fresh[j].eval_with_context(fresh_ctx).map(|v| to_rv(&v));
                        evals.fetch_add(1, Ordering::Relaxed);
                        if !res_same(&r, &seq[j]) {
                            fail_once("first concurrent evaluation of a fresh tree differs from the sequential result", j, &seq[j], &r, threads);
                        }
                    }
                });
            }
        });
    }
    // (1) scoped threads sharing &Node and &HashMapContext (Sync)
    std::thread::scope(|s| {
        for i in 0..threads {
            let (trees, ctx, empty, emptyb, seq, seq_e, seq_b, barrier, evals, fail_once) =
                (&batch.trees, &ctx, &empty, &emptyb, &seq, &seq_e, &seq_b, &barrier, &evals, &fail_once);
            s.spawn(move || {
                barrier.wait();
                let offset = i * n / threads.max(1);
                for round in 0..k {
                    for jj in 0..n {
                        let j = (jj + offset + round) % n;
                        let r = trees[j].eval_with_context(ctx).map(|v| to_rv(&v));
                        if !res_same(&r, &seq[j]) {
                            fail_once("concurrent result differs from the sequential result (shared HashMapContext)", j, &seq[j], &r, threads);
                        }
                        if round % 8 == 0 {
                            let r = trees[j].eval_with_context(empty).map(|v| to_rv(&v));
                            if !res_same(&r, &seq_e[j]) {
                                fail_once("concurrent result differs from the sequential result (shared EmptyContext)", j, &seq_e[j], &r, threads);
                            }
                            let r = trees[j].eval_with_context(emptyb).map(|v| to_rv(&v));
                            if !res_same(&r, &seq_b[j]) {
                                fail_once("concurrent result differs from the sequential result (shared EmptyContextWithBuiltinFunctions)", j, &seq_b[j], &r, threads);
                            }
                            evals.fetch_add(2, Ordering::Relaxed);
                        }
                        evals.fetch_add(1, Ordering::Relaxed);
                    }
                }
            });
        }
    });
    // (2) Arc-shared, 'static threads (Send + Sync + 'static), and values / errors / trees moved
    // through channels and back
    let shared_trees = Arc::new(batch.trees.clone());
    let shared_ctx = Arc::new(ctx.clone());
    let (tx, rx) = mpsc::channel::<(usize, Result<Val, RealErr>, Tree, Operator<DefaultNumericTypes>)>();
    let mut handles = Vec::new();
    for i in 0..threads.min(4) {
        let (trees, c, tx) = (shared_trees.clone(), shared_ctx.clone(), tx.clone());
        handles.push(std::thread::spawn(move || {
            for j in (i..trees.len()).step_by(4) {
                let r = trees[j].eval_with_context(&*c);
                // move the result, a clone of the tree and an operator to the main thread
                let _ = tx.send((j, r, trees[j].clone(), trees[j].operator().clone()));
            }
        }));
    }
    drop(tx);
    for (j, r, tree, op) in rx {
        evals.fetch_add(1, Ordering::Relaxed);
        let r: Res = r.map(|v| to_rv(&v));
        if !res_same(&r, &seq[j]) {
            fail_once("result moved from another thread differs from the sequential result", j, &seq[j], &r, threads);
        }
        if tree != batch.trees[j] && format!("{:?}", tree) != format!("{:?}", batch.trees[j]) {
            fail_once("tree cloned in another thread differs", j, &seq[j], &r, threads);
        }
        if &op != batch.trees[j].operator() && format!("{:?}", op) != format!("{:?}", batch.trees[j].operator()) {
            fail_once("operator cloned in another thread differs", j, &seq[j], &r, threads);
        }
    }
    for h in handles {
        let _ = h.join();
    }
    // a Function moved to another thread and called there
    let f: Function<DefaultNumericTypes> = Function::new(|v| Ok(v.clone()));
    let moved = std::thread::spawn(move || {
        let mut c = HashMapContext::<DefaultNumericTypes>::new();
        use evalexpr::ContextWithMutableFunctions;
        c.set_function("id".into(), f).map(|_| evalexpr::eval_with_context("id(7)", &c))
    })
    .join();
    match moved {
        Ok(Ok(Ok(Value::Int(7)))) => {},
        other => rep.fail("function", "C15/function moved to another thread misbehaves", json!({"kind": "function"}), "Ok(Int(7))".into(), format!("{:?}", other), 0),
    }
    l.evaluations += evals.load(Ordering::Relaxed);
    if threads >= 4 {
        for (j, src) in batch.sources.iter().enumerate() {
            if reads_shared(src) {
                l.nontrivial_key(&format!("{}\u{1}{}", src, batch.ctx.describe()));
                let _ = j;
            }
        }
        l.label("batch on >= 4 threads");
    }
}

/// One program per builtin (49 distinct function identifiers resolved through the builtin
/// fallback of one shared context), evaluated concurrently.
fn builtin_batch() -> Batch {
    let mut sources = Vec::new();
    for name in refmodel::builtins::BUILTINS {
        let arg = match name {
            "math::log" | "math::pow" | "math::atan2" | "math::hypot" | "bitand" | "bitor" | "bitxor" | "shl" | "shr" | "min" | "max" => "(3, 2)",
            "if" => "(true, 1, 2)",
            "contains" => "((1, 2), 2)",
            "contains_any" => "((1, 2), (2, 5))",
            "len" | "str::to_lowercase" | "str::to_uppercase" | "str::trim" => "(\"Ab c\")",
            "str::substring" => "(\"abc\", 1)",
            "bitnot" | "math::abs" => "(a0)",
            _ => "(2)",
        };
        sources.push(format!("{}{}", name, arg));
    }
    let mut ctx = Ctx::hashmap();
    ctx.vars.insert("a0".into(), RV::Int(-5));
    let trees = sources.iter().map(|s| evalexpr::build_operator_tree::<DefaultNumericTypes>(s).expect("builtin call builds")).collect();
    Batch { ctx, sources, trees }
}

/// Same builtin, many different arguments: with staggered offsets different threads are inside the
/// same builtin with different arguments at the same instant (a shared memo, cache or scratch
/// buffer behind a builtin or a numeric primitive shows up as a wrong value here).
fn contention_batch() -> Batch {
    let mut sources = Vec::new();
    let floats = ["0.1", "0.25", "0.5", "0.75", "1.5", "2.5", "3.25", "7.125", "10.5", "100.25", "0.001", "12345.678"];
    let ints = ["1", "2", "3", "5", "7", "11", "13", "17", "19", "23", "29", "31"];
    let strs = ["\"a\"", "\"Ab\"", "\"abC\"", "\"  x \"", "\"äÖ\"", "\"hello\"", "\"W\"", "\"zz z\"", "\"Q\"", "\"mixed Case\"", "\"1\"", "\"\""];
    for name in refmodel::builtins::BUILTINS {
        for k in 0..12 {
            let src = match name {
                "math::log" | "math::pow" | "math::atan2" | "math::hypot" => format!("{}({}, {})", name, floats[k], floats[(k + 5) % 12]),
                "bitand" | "bitor" | "bitxor" | "shl" | "shr" => format!("{}({}, {})", name, ints[k], ints[(k + 5) % 12]),
                "min" | "max" => format!("{}({}, {}, {})", name, floats[k], ints[k], floats[(k + 3) % 12]),
                "if" => format!("if({}, {}, {})", if k % 2 == 0 { "true" } else { "false" }, floats[k], strs[k]),
                "contains" => format!("contains(({}, {}, {}), {})", ints[k], strs[k], floats[k], ints[(k + k % 2) % 12]),
                "contains_any" => format!("contains_any(({}, {}), ({}, {}))", ints[k], strs[k], ints[(k + 1) % 12], strs[(k + k % 2) % 12]),
                "len" | "str::to_lowercase" | "str::to_uppercase" | "str::trim" => format!("{}({})", name, strs[k]),
                "str::substring" => format!("str::substring({}, 0, len({}))", strs[k], strs[k]),
                "str::from" | "typeof" => format!("{}({}, {}, {})", name, floats[k], strs[k], ints[k]),
                "bitnot" | "math::abs" => format!("{}(0 - {})", name, ints[k]),
                "random" => continue,
                _ => format!("{}({})", name, floats[k]),
            };
            sources.push(src);
        }
        // two different arguments of the same builtin inside one expression
        if matches!(name, "math::sin" | "math::cos" | "math::exp" | "math::ln" | "math::sqrt" | "floor" | "round" | "math::cbrt") {
            for k in 0..12 {
                sources.push(format!("({}({}), {}({}))", name, floats[k], name, floats[(k + 7) % 12]));
            }
        }
    }
    // wide tuples and chains (9 .. 70 children in one node): scratch state that belongs to a node
    // instead of to one evaluation shows up as a tuple of the wrong length or content
    for n in [9usize, 10, 16, 17, 33, 64, 70] {
        let elems: Vec<String> = (0..n).map(|k| if k % 4 == 3 { format!("{}.5", k) } else if k % 4 == 1 { format!("\"e{}\"", k) } else { k.to_string() }).collect();
        sources.push(elems.join(", "));
        sources.push(format!("({}), {}", elems.join(", "), n));
        sources.push(elems.join("; "));
        sources.push(format!("len(({}))", elems.join(", ")));
    }
    let ctx = Ctx::hashmap();
    let mut kept = Vec::new();
    let mut trees = Vec::new();
    for s in sources {
        if let Ok(t) = evalexpr::build_operator_tree::<DefaultNumericTypes>(&s) {
            kept.push(s);
            trees.push(t);
        }
    }
    Batch { ctx, sources: kept, trees }
}

fn run(rep: &Report) {
    rep.set_rule(
        "compile-time half: this check's own code shares &Node, &Value, &EvalexprError, &Function, &Operator, \
         &HashMapContext, &EmptyContext, &EmptyContextWithBuiltinFunctions across thread::scope, moves owned instances \
         into spawned threads and asserts Send + Sync per type, so it type-checks iff the eight types are Send + Sync. \
         Dynamic half: batches of generated read-only programs (no assignment; variables, user functions, builtins, \
         all value types) with one shared context, evaluated K times from T in {2,4,8,16} threads released by a \
         barrier with staggered offsets (scoped borrows and Arc), results / cloned trees / operators moved back \
         through a channel; the first evaluation of freshly built trees happens concurrently (the oracle's results come \
         from other instances); one batch calls all 49 builtins through one shared context; a contention batch calls every builtin with 12 different arguments (and the same unary math builtin twice inside one expression) so that staggered threads are inside the same builtin with different arguments at once; plus a rendezvous phase in which a harness-owned user function holds 16 / 48 / 64 threads \
         inside a function call at the same instant (the one point where the harness owns the schedule), also at the innermost point of a 2500-deep expression and inside a 60,000-element tuple; oracle: the \
         sequential result computed beforehand, bit-exact. Non-trivial: distinct \
         (program, context) that reads a shared variable or calls a shared function, run on >= 4 threads.",
    );
    rep.assume("the harness does not own the scheduler: interleavings are sampled, not enumerated (DESIGN §4 C15, honest limit)");
    rep.assume("loom / shuttle do not apply: the code under test uses no synchronisation primitives that could be swapped for theirs");
    static_assertions();
    rep.add_extra("send_sync_types_asserted", json!(8));
    let (batches, k, size) = match rep.tier {
        Tier::Quick => (24usize, 40usize, 64usize),
        Tier::Thorough => (400, 300, 64),
    };
    let mut runner = TestRunner::new(Config {
        rng_seed: RngSeed::Fixed(vcore::mix(rep.seed, 150)),
        failure_persistence: None,
        ..Config::default()
    });
    let mut l = Local::default();
    for b in 0..batches {
        let batch = gen_batch(&mut runner, size, 4);
        if b < 3 {
            for s in batch.sources.iter().take(2) {
                l.samples.push(json!({"src": vcore::clip(s, 100), "ctx": vcore::clip(&batch.ctx.describe(), 160)}));
            }
        }
        for threads in [2usize, 4, 8, 16] {
            check_batch(rep, &batch, threads, k, &mut l);
        }
        // maximal overlap: every thread inside a user-function call at the same instant
        for threads in [16usize, 48, 64] {
            check_rendezvous(rep, &batch.ctx, threads, rep.tier.pick(2, 10), b < rep.tier.pick(3, 60), &mut l);
        }
    }
    // every builtin name through one shared context
    let bb = builtin_batch();
    for threads in [4usize, 16] {
        for _ in 0..rep.tier.pick(3, 30) {
            check_batch(rep, &bb, threads, k, &mut l);
        }
    }
    l.label("all-builtins batch");
    // the same builtin with many different arguments, from staggered threads
    let cb = contention_batch();
    rep.add_extra("contention_batch_sources", json!(cb.sources.len()));
    for threads in [8usize, 16] {
        for _ in 0..rep.tier.pick(2, 20) {
            check_batch(rep, &cb, threads, rep.tier.pick(60, 300), &mut l);
        }
    }
    l.label("same-builtin contention batch");
    // contexts BUILT on different threads (identities handed out per thread must not collide):
    // the same construction steps on two threads, one context shadows a builtin and the other does
    // not; one shared tree is evaluated on the plain context first, then on the shadowing one,
    // sequentially and concurrently; each must give the result of its own fresh evaluation
    for round in 0..rep.tier.pick(20usize, 400) {
        let make = |shadow: bool| {
            std::thread::spawn(move || {
                use evalexpr::{ContextWithMutableFunctions, ContextWithMutableVariables};
                let mut c = HCtx::new();
                c.set_value("a".into(), evalexpr::Value::Int(3)).expect("set");
                let name = if shadow { "min" } else { "other" };
                c.set_function(name.into(), evalexpr::Function::new(|_| Ok(evalexpr::Value::Int(-99)))).expect("set function");
                c
            })
        };
        let (plain, shadowing) = (make(false).join().expect("thread"), make(true).join().expect("thread"));
        let src = ["min(3, 5) + 1", "min(a, 7)", "(min(1, 2), max(1, 2), len(\"ab\"))"][round % 3];
        let tree = evalexpr::build_operator_tree::<DefaultNumericTypes>(src).expect("builds");
        let want_plain = evalexpr::build_operator_tree::<DefaultNumericTypes>(src).expect("builds").eval_with_context(&plain).map(|v| to_rv(&v));
        let want_shadow = evalexpr::build_operator_tree::<DefaultNumericTypes>(src).expect("builds").eval_with_context(&shadowing).map(|v| to_rv(&v));
        let mut bad: Option<(Res, Res)> = None;
        for _ in 0..3 {
            let r1 = tree.eval_with_context(&plain).map(|v| to_rv(&v));
            let r2 = tree.eval_with_context(&shadowing).map(|v| to_rv(&v));
            if !res_same(&r1, &want_plain) {
                bad = Some((want_plain.clone(), r1));
            } else if !res_same(&r2, &want_shadow) {
                bad = Some((want_shadow.clone(), r2));
            }
        }
        std::thread::scope(|s| {
            let (tree, plain, shadowing, want_plain, want_shadow) = (&tree, &plain, &shadowing, &want_plain, &want_shadow);
            let h1 = s.spawn(move || (0..200).all(|_| res_same(&tree.eval_with_context(plain).map(|v| to_rv(&v)), want_plain)));
            let h2 = s.spawn(move || (0..200).all(|_| res_same(&tree.eval_with_context(shadowing).map(|v| to_rv(&v)), want_shadow)));
            let ok = h1.join().unwrap_or(false) & h2.join().unwrap_or(false);
            if !ok && bad.is_none() {
                bad = Some((want_shadow.clone(), tree.eval_with_context(shadowing).map(|v| to_rv(&v))));
            }
        });
        l.evaluations += 406;
        if let Some((want, got)) = bad {
            rep.fail(
                "contexts-from-threads",
                "C15/one tree evaluated against two contexts built on different threads gives the result of the wrong context",
                json!({"kind": "concurrent", "src": src, "ctx": common::ctx_to_json(&Ctx::hashmap()), "threads": 2}),
                res_text(&want),
                res_text(&got),
                src.len(),
            );
            break;
        }
    }
    l.label("contexts built on different threads");
    rep.merge(l);
}

fn replay(case: &J, rep: &Report) {
    // re-run the saved program on 16 threads many times
    let src = case["src"].as_str().unwrap_or("1");
    let ctx = common::ctx_from_json(&case["ctx"]).unwrap_or_else(|| Ctx::hashmap());
    if case["kind"].as_str() == Some("rendezvous") {
        let mut l = Local::default();
        for _ in 0..5 {
            check_rendezvous(rep, &ctx, 64, 5, true, &mut l);
        }
        rep.merge(l);
        return;
    }
    if let Ok(t) = evalexpr::build_operator_tree::<DefaultNumericTypes>(src) {
        let batch = Batch { ctx, sources: vec![src.to_string(); 8], trees: vec![t; 8] };
        let mut l = Local::default();
        for _ in 0..20 {
            check_batch(rep, &batch, 16, 200, &mut l);
        }
        rep.merge(l);
    }
}

fn main() {
    let args: Vec<String> = std::env::args().skip(1).collect();
    let code = match args.first().map(|s| s.as_str()) {
        Some("replay") if args.len() == 2 => {
            let j = vcore::read_json(Path::new(&args[1])).unwrap_or_else(|e| {
                eprintln!("HARNESS ERROR: {}", e);
                std::process::exit(2)
            });
            if std::env::var("VERIF_EVIDENCE_OUT").is_err() {
                std::env::set_var("VERIF_EVIDENCE_OUT", vcore::verif_root().join("out").join("replay_C15.json"));
            }
            let mut rep = Report::new("C15", Tier::Quick, vcore::seed_from_env());
            rep.strict = true;
            rep.set_rule("replay of one saved case on 16 threads");
            replay(&j["case"], &rep);
            rep.finish()
        },
        Some("quick") | Some("thorough") | None => {
            let tier = if args.first().map(|s| s.as_str()) == Some("thorough") { Tier::Thorough } else { Tier::Quick };
            let rep = Report::new("C15", tier, vcore::seed_from_env());
            run(&rep);
            rep.finish()
        },
        _ => {
            eprintln!("usage: c15 [quick|thorough] | c15 replay <file>");
            2
        },
    };
    std::process::exit(code);
}
