fn main(){}
