//! Shared runner infrastructure: panic capture, parallel sharding, findings by signature,
//! known-findings file, evidence writer, replay files. No dependency on evalexpr.

use std::cell::RefCell;
use std::collections::{BTreeMap, HashSet};
use std::hash::{Hash, Hasher};
use std::panic::{self, AssertUnwindSafe};
use std::path::{Path, PathBuf};
use std::sync::atomic::{AtomicBool, AtomicU64, Ordering};
use std::sync::{Mutex, Once};
use std::time::Instant;

pub use serde_json;
use serde_json::{json, Map, Value as J};

// ---------------------------------------------------------------------------------------------
// panic capture
// ---------------------------------------------------------------------------------------------

thread_local! {
    static LAST_PANIC: RefCell<Option<(String, String)>> = RefCell::new(None);
    static QUIET: RefCell<bool> = RefCell::new(false);
}
static HOOK: Once = Once::new();

#[derive(Clone, Debug)]
pub struct PanicInfo {
    pub location: String,
    pub message: String,
}

impl PanicInfo {
    /// Root-cause key: source file + message with digits removed (so that `index 3 …` and
    /// `index 5 …` are one signature) — line numbers are kept out so edits do not rename findings.
    pub fn signature(&self) -> String {
        let file = self.location.split(':').next().unwrap_or("").to_string();
        let file = file.rsplit("/src/").next().map(|s| format!("src/{}", s)).unwrap_or(file);
        // cut at the first quoted payload (the message may embed the offending string)
        let head = self.message.split(|c| c == '`' || c == '\'' || c == '"').next().unwrap_or("");
        let msg: String = head.chars().filter(|c| !c.is_ascii_digit()).take(60).collect();
        let msg = msg.trim().to_string();
        format!("panic@{} \"{}\"", file, msg)
    }
}

pub fn install_panic_hook() {
    HOOK.call_once(|| {
        let default = panic::take_hook();
        panic::set_hook(Box::new(move |info| {
            let quiet = QUIET.with(|q| *q.borrow());
            if quiet {
                let loc = info.location().map(|l| format!("{}:{}", l.file(), l.line())).unwrap_or_default();
                let msg = if let Some(s) = info.payload().downcast_ref::<&str>() {
                    s.to_string()
                } else if let Some(s) = info.payload().downcast_ref::<String>() {
                    s.clone()
                } else {
                    "<non-string panic payload>".to_string()
                };
                LAST_PANIC.with(|p| *p.borrow_mut() = Some((loc, msg)));
            } else {
                default(info);
            }
        }));
    });
}

/// Run `f`; a panic inside is captured (silently) and returned as `Err`.
pub fn catch<T>(f: impl FnOnce() -> T) -> Result<T, PanicInfo> {
    install_panic_hook();
    let was = QUIET.with(|q| q.replace(true));
    LAST_PANIC.with(|p| *p.borrow_mut() = None);
    let r = panic::catch_unwind(AssertUnwindSafe(f));
    QUIET.with(|q| *q.borrow_mut() = was);
    match r {
        Ok(v) => Ok(v),
        Err(_) => {
            let (location, message) =
                LAST_PANIC.with(|p| p.borrow_mut().take()).unwrap_or_else(|| ("?".into(), "?".into()));
            Err(PanicInfo { location, message })
        },
    }
}

// ---------------------------------------------------------------------------------------------
// in-flight journal (crash triage)
// ---------------------------------------------------------------------------------------------
//
// A process abort (allocation failure, `process::abort`, a panic while panicking) kills the
// harness before it can report. When VERIF_JOURNAL_DIR is set, every worker thread keeps the case
// it is about to execute in its own file there, in replay-file format; after an abnormal
// termination the driver script replays each of those files in a fresh process to find the case
// that kills it. Off (one relaxed load per case) unless the variable is set.

static JOURNAL_DIR: std::sync::OnceLock<Option<std::path::PathBuf>> = std::sync::OnceLock::new();
static JOURNAL_SLOT: std::sync::atomic::AtomicUsize = std::sync::atomic::AtomicUsize::new(0);
thread_local! {
    static JOURNAL_FILE: RefCell<Option<std::fs::File>> = const { RefCell::new(None) };
}

pub fn journal(property: &str, case: impl FnOnce() -> serde_json::Value) {
    let dir = match JOURNAL_DIR.get_or_init(|| std::env::var_os("VERIF_JOURNAL_DIR").map(std::path::PathBuf::from)) {
        Some(d) => d,
        None => return,
    };
    use std::io::{Seek, SeekFrom, Write};
    JOURNAL_FILE.with(|slot| {
        let mut slot = slot.borrow_mut();
        if slot.is_none() {
            let _ = std::fs::create_dir_all(dir);
            let n = JOURNAL_SLOT.fetch_add(1, std::sync::atomic::Ordering::Relaxed);
            *slot = std::fs::File::create(dir.join(format!("inflight_{:03}.json", n))).ok();
        }
        if let Some(f) = slot.as_mut() {
            let profile = if cfg!(debug_assertions) { "checked" } else { "release" };
            let text = serde_json::json!({
                "property": property,
                "subcheck": "in-flight journal",
                "signature": format!("{}/process abort (the case in flight when the process died)", property),
                "case": case(),
                "profile": profile,
            })
            .to_string();
            let _ = f.seek(SeekFrom::Start(0));
            let _ = f.write_all(text.as_bytes());
            let _ = f.set_len(text.len() as u64);
        }
    });
}

// ---------------------------------------------------------------------------------------------
// configuration
// ---------------------------------------------------------------------------------------------

#[derive(Clone, Copy, Debug, PartialEq, Eq)]
pub enum Tier {
    Quick,
    Thorough,
}

impl Tier {
    pub fn name(self) -> &'static str {
        match self {
            Tier::Quick => "quick",
            Tier::Thorough => "thorough",
        }
    }
    pub fn pick<T>(self, quick: T, thorough: T) -> T {
        match self {
            Tier::Quick => quick,
            Tier::Thorough => thorough,
        }
    }
}

pub const DEFAULT_SEED: u64 = 20261002;

pub fn seed_from_env() -> u64 {
    match std::env::var("VERIF_SEED").ok().and_then(|s| s.trim().parse::<u64>().ok()) {
        Some(0) | None => DEFAULT_SEED,
        Some(n) => n,
    }
}

pub fn threads() -> usize {
    std::env::var("VERIF_THREADS")
        .ok()
        .and_then(|s| s.parse().ok())
        .unwrap_or_else(|| std::thread::available_parallelism().map(|n| n.get()).unwrap_or(8))
}

pub fn verif_root() -> PathBuf {
    std::env::var("VERIF_ROOT").map(PathBuf::from).unwrap_or_else(|_| PathBuf::from("/verif"))
}

/// Build profile this binary was compiled with (overflow checks on = "checked").
pub fn profile() -> &'static str {
    if cfg!(debug_assertions) {
        "checked"
    } else {
        "release"
    }
}

/// splitmix64: derive independent sub-seeds (the only arithmetic on seeds; no RNG of our own is
/// used to make choices — sub-seeds go to proptest's TestRunner).
pub fn mix(seed: u64, salt: u64) -> u64 {
    let mut z = seed.wrapping_add(salt.wrapping_mul(0x9E37_79B9_7F4A_7C15)).wrapping_add(0x9E37_79B9_7F4A_7C15);
    z = (z ^ (z >> 30)).wrapping_mul(0xBF58_476D_1CE4_E5B9);
    z = (z ^ (z >> 27)).wrapping_mul(0x94D0_49BB_1331_11EB);
    z ^ (z >> 31)
}

pub fn hash_str(s: &str) -> u64 {
    let mut h = std::collections::hash_map::DefaultHasher::new();
    s.hash(&mut h);
    h.finish()
}

// ---------------------------------------------------------------------------------------------
// parallel sharding on big-stack threads
// ---------------------------------------------------------------------------------------------

pub const STACK_BYTES: usize = 256 << 20;

/// Run `f(shard_index, n_shards)` on `n` big-stack threads and wait for all of them.
pub fn par_shards<F>(n: usize, f: F)
where
    F: Fn(usize, usize) + Sync,
{
    std::thread::scope(|s| {
        let mut hs = Vec::new();
        for i in 0..n {
            let f = &f;
            hs.push(
                std::thread::Builder::new()
                    .name(format!("shard{}", i))
                    .stack_size(STACK_BYTES)
                    .spawn_scoped(s, move || f(i, n))
                    .expect("spawn"),
            );
        }
        for h in hs {
            if h.join().is_err() {
                eprintln!("HARNESS ERROR: a shard thread panicked outside catch()");
                std::process::exit(2);
            }
        }
    });
}

/// Run a closure on one big-stack thread and return its result.
pub fn on_big_stack<T: Send>(f: impl FnOnce() -> T + Send) -> T {
    std::thread::scope(|s| {
        std::thread::Builder::new()
            .stack_size(STACK_BYTES)
            .spawn_scoped(s, f)
            .expect("spawn")
            .join()
            .unwrap_or_else(|_| {
                eprintln!("HARNESS ERROR: big-stack thread panicked");
                std::process::exit(2)
            })
    })
}

/// Dynamic work distribution: items 0..total are handed out in chunks.
pub struct WorkQueue {
    next: AtomicU64,
    total: u64,
    chunk: u64,
}
impl WorkQueue {
    pub fn new(total: u64, chunk: u64) -> Self {
        WorkQueue { next: AtomicU64::new(0), total, chunk: chunk.max(1) }
    }
    pub fn take(&self) -> Option<std::ops::Range<u64>> {
        let start = self.next.fetch_add(self.chunk, Ordering::Relaxed);
        if start >= self.total {
            None
        } else {
            Some(start..(start + self.chunk).min(self.total))
        }
    }
}

// ---------------------------------------------------------------------------------------------
// findings, labels, evidence
// ---------------------------------------------------------------------------------------------

#[derive(Clone, Debug)]
pub struct Finding {
    pub subcheck: String,
    pub signature: String,
    /// self-contained replay case (JSON object understood by `vcheck replay`)
    pub case: J,
    pub expected: String,
    pub actual: String,
    /// size measure: smaller witnesses replace larger ones
    pub size: usize,
    pub count: u64,
}

#[derive(Clone, Debug)]
pub struct KnownFinding {
    pub property: String,
    pub signature: String,
    pub status: String,
    pub what: String,
}

pub fn load_known_findings() -> Vec<KnownFinding> {
    let p = verif_root().join("known_findings.json");
    let txt = match std::fs::read_to_string(&p) {
        Ok(t) => t,
        Err(_) => return Vec::new(),
    };
    let j: J = match serde_json::from_str(&txt) {
        Ok(j) => j,
        Err(e) => {
            eprintln!("HARNESS ERROR: known_findings.json does not parse: {}", e);
            std::process::exit(2);
        },
    };
    let mut out = Vec::new();
    if let Some(arr) = j.get("findings").and_then(|a| a.as_array()) {
        for e in arr {
            out.push(KnownFinding {
                property: e["property"].as_str().unwrap_or("").to_string(),
                signature: e["signature"].as_str().unwrap_or("").to_string(),
                status: e["status"].as_str().unwrap_or("").to_string(),
                what: e["what"].as_str().unwrap_or("").to_string(),
            });
        }
    }
    out
}

pub struct Report {
    pub property: String,
    pub tier: Tier,
    pub seed: u64,
    start: Instant,
    findings: Mutex<BTreeMap<String, Finding>>,
    labels: Mutex<BTreeMap<String, u64>>,
    evaluations: AtomicU64,
    nontrivial_hashes: Mutex<HashSet<u64>>,
    /// distinct non-trivial cases counted directly (exhaustive enumerations: distinct by
    /// construction)
    nontrivial_direct: AtomicU64,
    samples: Mutex<Vec<J>>,
    extra: Mutex<Map<String, J>>,
    assumptions: Mutex<Vec<String>>,
    pub rule: Mutex<String>,
    exhaustive: AtomicBool,
    inconclusive: Mutex<Vec<String>>,
    known: Vec<KnownFinding>,
    /// strict mode (replay): known findings are not tolerated
    pub strict: bool,
}

/// Per-shard accumulator, merged into the report at the end of the shard (keeps locks cold).
#[derive(Default)]
pub struct Local {
    pub evaluations: u64,
    pub labels: BTreeMap<&'static str, u64>,
    pub nontrivial: HashSet<u64>,
    pub nontrivial_direct: u64,
    pub samples: Vec<J>,
}

impl Local {
    pub fn label(&mut self, l: &'static str) {
        *self.labels.entry(l).or_insert(0) += 1;
    }
    pub fn label_n(&mut self, l: &'static str, n: u64) {
        *self.labels.entry(l).or_insert(0) += n;
    }
    pub fn nontrivial_key(&mut self, key: &str) {
        self.nontrivial.insert(hash_str(key));
    }
    pub fn sample(&mut self, cap: usize, j: impl FnOnce() -> J) {
        if self.samples.len() < cap {
            self.samples.push(j());
        }
    }
}

impl Report {
    pub fn new(property: &str, tier: Tier, seed: u64) -> Report {
        let known = load_known_findings().into_iter().filter(|k| k.property == property).collect();
        Report {
            property: property.to_string(),
            tier,
            seed,
            start: Instant::now(),
            findings: Mutex::new(BTreeMap::new()),
            labels: Mutex::new(BTreeMap::new()),
            evaluations: AtomicU64::new(0),
            nontrivial_hashes: Mutex::new(HashSet::new()),
            nontrivial_direct: AtomicU64::new(0),
            samples: Mutex::new(Vec::new()),
            extra: Mutex::new(Map::new()),
            assumptions: Mutex::new(Vec::new()),
            rule: Mutex::new(String::new()),
            exhaustive: AtomicBool::new(false),
            inconclusive: Mutex::new(Vec::new()),
            known,
            strict: false,
        }
    }

    pub fn merge(&self, l: Local) {
        self.evaluations.fetch_add(l.evaluations, Ordering::Relaxed);
        self.nontrivial_direct.fetch_add(l.nontrivial_direct, Ordering::Relaxed);
        {
            let mut g = self.labels.lock().unwrap();
            for (k, v) in l.labels {
                *g.entry(k.to_string()).or_insert(0) += v;
            }
        }
        {
            let mut g = self.nontrivial_hashes.lock().unwrap();
            g.extend(l.nontrivial);
        }
        {
            let mut g = self.samples.lock().unwrap();
            for s in l.samples {
                if g.len() < 40 {
                    g.push(s);
                }
            }
        }
    }

    pub fn is_known(&self, signature: &str) -> bool {
        !self.strict && self.known.iter().any(|k| k.status == "known" && k.signature == signature)
    }

    /// Has this signature been recorded already in this run (or is it a known finding)?
    pub fn seen(&self, signature: &str) -> bool {
        self.is_known(signature) || self.findings.lock().unwrap().contains_key(signature)
    }

    /// Record a failure. Keeps the smallest witness per signature.
    pub fn fail(&self, subcheck: &str, signature: &str, case: J, expected: String, actual: String, size: usize) {
        let mut g = self.findings.lock().unwrap();
        match g.get_mut(signature) {
            Some(f) => {
                f.count += 1;
                if size < f.size {
                    f.case = case;
                    f.expected = expected;
                    f.actual = actual;
                    f.size = size;
                    f.subcheck = subcheck.to_string();
                }
            },
            None => {
                g.insert(
                    signature.to_string(),
                    Finding {
                        subcheck: subcheck.to_string(),
                        signature: signature.to_string(),
                        case,
                        expected,
                        actual,
                        size,
                        count: 1,
                    },
                );
            },
        }
    }

    pub fn finding_count(&self) -> usize {
        self.findings.lock().unwrap().len()
    }

    pub fn add_extra(&self, key: &str, v: J) {
        self.extra.lock().unwrap().insert(key.to_string(), v);
    }
    pub fn assume(&self, s: &str) {
        self.assumptions.lock().unwrap().push(s.to_string());
    }
    pub fn set_rule(&self, s: &str) {
        *self.rule.lock().unwrap() = s.to_string();
    }
    pub fn set_exhaustive(&self, b: bool) {
        self.exhaustive.store(b, Ordering::Relaxed);
    }
    pub fn inconclusive(&self, why: &str) {
        self.inconclusive.lock().unwrap().push(why.to_string());
    }
    pub fn add_sample(&self, j: J) {
        let mut g = self.samples.lock().unwrap();
        if g.len() < 60 {
            g.push(j);
        }
    }
    pub fn evaluations(&self) -> u64 {
        self.evaluations.load(Ordering::Relaxed)
    }

    /// Write evidence, print verdict lines, return the process exit code.
    pub fn finish(&self) -> i32 {
        let root = verif_root();
        let findings = self.findings.lock().unwrap();
        let mut violations = 0;
        let mut known_hits = Vec::new();
        let mut lines = Vec::new();
        let vdir = root.join("out").join("violations");
        for (sig, f) in findings.iter() {
            if self.is_known(sig) {
                known_hits.push(sig.clone());
                let what = self.known.iter().find(|k| &k.signature == sig).map(|k| k.what.clone()).unwrap_or_default();
                lines.push(format!("KNOWN-FINDING: property={} {} [{}] ({} cases)", self.property, sig, clip(&what, 140), f.count));
                continue;
            }
            if sig.starts_with("HARNESS/") {
                // an inconsistency inside the oracle itself is never reported as a violation
                self.inconclusive(&format!("{} | case {} | expected {} | actual {}", sig, f.case, f.expected, f.actual));
                continue;
            }
            violations += 1;
            let _ = std::fs::create_dir_all(&vdir);
            let name = format!("{}_{:016x}.json", self.property, hash_str(sig));
            let path = vdir.join(name);
            let replay = json!({
                "property": self.property,
                "subcheck": f.subcheck,
                "signature": f.signature,
                "case": f.case,
                "expected": f.expected,
                "actual": f.actual,
                "profile": profile(),
                "seed": self.seed,
                "cases_with_this_signature": f.count,
            });
            let _ = std::fs::write(&path, serde_json::to_string_pretty(&replay).unwrap());
            lines.push(format!("VIOLATION property={} replay={}", self.property, path.display()));
            eprintln!(
                "  signature: {}\n  subcheck: {}\n  case: {}\n  expected: {}\n  actual: {}",
                f.signature, f.subcheck, f.case, f.expected, f.actual
            );
        }
        let hashes = self.nontrivial_hashes.lock().unwrap().len() as u64;
        let distinct = hashes + self.nontrivial_direct.load(Ordering::Relaxed);
        let mut coverage = Map::new();
        coverage.insert("evaluations".into(), json!(self.evaluations.load(Ordering::Relaxed)));
        coverage.insert("distinct_nontrivial".into(), json!(distinct));
        coverage.insert("rule".into(), json!(self.rule.lock().unwrap().clone()));
        coverage.insert("samples".into(), J::Array(self.samples.lock().unwrap().clone()));
        coverage.insert("exhaustive".into(), json!(self.exhaustive.load(Ordering::Relaxed)));
        coverage.insert("labels".into(), json!(self.labels.lock().unwrap().clone()));
        coverage.insert("profile".into(), json!(profile()));
        coverage.insert("known_findings_hit".into(), json!(known_hits));
        for (k, v) in self.extra.lock().unwrap().iter() {
            coverage.insert(k.clone(), v.clone());
        }
        let inconclusive = self.inconclusive.lock().unwrap().clone();
        if !inconclusive.is_empty() {
            coverage.insert("inconclusive".into(), json!(inconclusive));
        }
        let ev = json!({
            "property_id": self.property,
            "tier": self.tier.name(),
            "seed": self.seed,
            "level": "exploration",
            "coverage": J::Object(coverage),
            "assumptions": self.assumptions.lock().unwrap().clone(),
            "wall_s": self.start.elapsed().as_secs_f64(),
            "violations": violations,
        });
        // The evidence path can be redirected (the two profiles of one check write partial files
        // that check.sh merges).
        let ev_path = std::env::var("VERIF_EVIDENCE_OUT")
            .map(PathBuf::from)
            .unwrap_or_else(|_| root.join("evidence").join(format!("{}.json", self.property)));
        if let Some(parent) = ev_path.parent() {
            let _ = std::fs::create_dir_all(parent);
        }
        if let Err(e) = std::fs::write(&ev_path, serde_json::to_string_pretty(&ev).unwrap()) {
            eprintln!("HARNESS ERROR: cannot write evidence {}: {}", ev_path.display(), e);
            return 2;
        }
        for l in &lines {
            println!("{}", l);
        }
        println!(
            "{} {} [{}] seed={} evaluations={} distinct_nontrivial={} violations={} known={} wall={:.1}s",
            self.property,
            self.tier.name(),
            profile(),
            self.seed,
            self.evaluations.load(Ordering::Relaxed),
            distinct,
            violations,
            known_hits.len(),
            self.start.elapsed().as_secs_f64()
        );
        if violations > 0 {
            1
        } else if !inconclusive.is_empty() {
            for w in &inconclusive {
                eprintln!("INCONCLUSIVE: {}", w);
            }
            2
        } else {
            0
        }
    }
}

pub fn read_json(path: &Path) -> Result<J, String> {
    let t = std::fs::read_to_string(path).map_err(|e| format!("{}: {}", path.display(), e))?;
    serde_json::from_str(&t).map_err(|e| format!("{}: {}", path.display(), e))
}

/// Truncate long strings for samples.
pub fn clip(s: &str, n: usize) -> String {
    if s.chars().count() <= n {
        s.to_string()
    } else {
        let mut t: String = s.chars().take(n).collect();
        t.push('…');
        t
    }
}
