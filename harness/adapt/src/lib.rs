//! Adapters between evalexpr and the reference model: Value <-> RV, error -> RE, Node -> Ast,
//! context construction from a reference `Ctx`, and context observation.

use std::sync::{Arc, Mutex};

use evalexpr::{
    Context, ContextWithMutableFunctions, ContextWithMutableVariables, DefaultNumericTypes, EmptyContext,
    EmptyContextWithBuiltinFunctions, EvalexprError, EvalexprResult, Function, HashMapContext,
    IterateVariablesContext, Node, Operator, Value,
};
use evalexpr::error::EvalexprResultValue;
use refmodel::ast::{AssignOp, Ast, BinOp};
use refmodel::interp::{CallRec, Ctx, Kind, UF};
use refmodel::value::{Exp, RE, RR, RV};

pub type Val = Value<DefaultNumericTypes>;
pub type Err = EvalexprError<DefaultNumericTypes>;
pub type HCtx = HashMapContext<DefaultNumericTypes>;
pub type Tree = Node<DefaultNumericTypes>;
pub type Op = Operator<DefaultNumericTypes>;

pub fn to_rv(v: &Val) -> RV {
    match v {
        Value::String(s) => RV::Str(s.clone()),
        Value::Float(f) => RV::Float(*f),
        Value::Int(i) => RV::Int(*i),
        Value::Boolean(b) => RV::Bool(*b),
        Value::Tuple(t) => RV::Tuple(t.iter().map(to_rv).collect()),
        Value::Empty => RV::Empty,
    }
}

pub fn from_rv(v: &RV) -> Val {
    match v {
        RV::Str(s) => Value::String(s.clone()),
        RV::Float(f) => Value::Float(*f),
        RV::Int(i) => Value::Int(*i),
        RV::Bool(b) => Value::Boolean(*b),
        RV::Tuple(t) => Value::Tuple(t.iter().map(from_rv).collect()),
        RV::Empty => Value::Empty,
    }
}

/// Variant name of an error (first identifier of its Debug form).
pub fn err_variant(e: &Err) -> String {
    let d = format!("{:?}", e);
    d.chars().take_while(|c| c.is_ascii_alphanumeric() || *c == '_').collect()
}

/// Map a real error to its most exact reference form.
pub fn map_err(e: &Err) -> RE {
    use EvalexprError::*;
    match e {
        WrongOperatorArgumentAmount { .. } | WrongFunctionArgumentAmount { .. } => RE::Arity,
        ExpectedString { actual } => RE::Expected(Exp::Str, to_rv(actual)),
        ExpectedInt { actual } => RE::Expected(Exp::Int, to_rv(actual)),
        ExpectedFloat { actual } => RE::Expected(Exp::Float, to_rv(actual)),
        ExpectedNumber { actual } => RE::Expected(Exp::Number, to_rv(actual)),
        ExpectedNumberOrString { actual } => RE::Expected(Exp::NumberOrString, to_rv(actual)),
        ExpectedBoolean { actual } => RE::Expected(Exp::Bool, to_rv(actual)),
        ExpectedTuple { actual } => RE::Expected(Exp::Tuple, to_rv(actual)),
        ExpectedEmpty { actual } => RE::Expected(Exp::Empty, to_rv(actual)),
        ExpectedFixedLengthTuple { .. } | ExpectedRangedLengthTuple { .. } | TypeError { .. } | WrongTypeCombination { .. } => {
            RE::Type
        },
        AdditionError { .. }
        | SubtractionError { .. }
        | NegationError { .. }
        | MultiplicationError { .. }
        | DivisionError { .. }
        | ModulationError { .. } => RE::Arith,
        OutOfBoundsAccess | IntFromUsize { .. } | IntIntoUsize { .. } => RE::Range,
        VariableIdentifierNotFound(n) => RE::VarNotFound(n.clone()),
        FunctionIdentifierNotFound(n) => RE::FnNotFound(n.clone()),
        ContextNotMutable => RE::NotMutable,
        CustomMessage(m) => RE::Custom(m.clone()),
        BuiltinFunctionsCannotBeEnabled => RE::CannotEnable,
        BuiltinFunctionsCannotBeDisabled => RE::CannotDisable,
        AppendedToLeafNode
        | PrecedenceViolation
        | UnmatchedLBrace
        | UnmatchedRBrace
        | UnmatchedDoubleQuote
        | MissingOperatorOutsideOfBrace
        | UnmatchedPartialToken { .. }
        | IllegalEscapeSequence(_) => RE::Build(err_variant(e)),
        other => RE::Other(err_variant(other)),
    }
}

/// Operands carried by an arithmetic error (to tell *which* operation failed).
pub fn arith_operands(e: &Err) -> Option<Vec<RV>> {
    use EvalexprError::*;
    match e {
        AdditionError { augend: a, addend: b }
        | SubtractionError { minuend: a, subtrahend: b }
        | MultiplicationError { multiplicand: a, multiplier: b }
        | DivisionError { dividend: a, divisor: b }
        | ModulationError { dividend: a, divisor: b } => Some(vec![to_rv(a), to_rv(b)]),
        NegationError { argument } => Some(vec![to_rv(argument)]),
        _ => None,
    }
}

pub fn map_result(r: &EvalexprResultValue) -> RR {
    match r {
        Ok(v) => Ok(to_rv(v)),
        Err(e) => Err(map_err(e)),
    }
}

// ---------------------------------------------------------------------------------------------
// tree normalisation (DESIGN §3.4)
// ---------------------------------------------------------------------------------------------

fn binop_of(op: &Op) -> Option<BinOp> {
    Some(match op {
        Operator::Add => BinOp::Add,
        Operator::Sub => BinOp::Sub,
        Operator::Mul => BinOp::Mul,
        Operator::Div => BinOp::Div,
        Operator::Mod => BinOp::Mod,
        Operator::Exp => BinOp::Exp,
        Operator::Eq => BinOp::Eq,
        Operator::Neq => BinOp::Neq,
        Operator::Gt => BinOp::Gt,
        Operator::Lt => BinOp::Lt,
        Operator::Geq => BinOp::Geq,
        Operator::Leq => BinOp::Leq,
        Operator::And => BinOp::And,
        Operator::Or => BinOp::Or,
        _ => return None,
    })
}

fn assignop_of(op: &Op) -> Option<AssignOp> {
    Some(match op {
        Operator::Assign => AssignOp::Set,
        Operator::AddAssign => AssignOp::Add,
        Operator::SubAssign => AssignOp::Sub,
        Operator::MulAssign => AssignOp::Mul,
        Operator::DivAssign => AssignOp::Div,
        Operator::ModAssign => AssignOp::Mod,
        Operator::ExpAssign => AssignOp::Exp,
        Operator::AndAssign => AssignOp::And,
        Operator::OrAssign => AssignOp::Or,
        _ => return None,
    })
}

/// Normalise the real tree into the reference AST ("parenthesis wrapper nodes ignored").
pub fn normalise(n: &Tree) -> Ast {
    let ch = n.children();
    let op = n.operator();
    if let Some(b) = binop_of(op) {
        if ch.len() != 2 {
            return Ast::Malformed(format!("{:?} with {} children", b, ch.len()));
        }
        return Ast::Bin(b, Box::new(normalise(&ch[0])), Box::new(normalise(&ch[1])));
    }
    if let Some(a) = assignop_of(op) {
        if ch.len() != 2 {
            return Ast::Malformed(format!("{:?}-assignment with {} children", a, ch.len()));
        }
        let name = match (ch[0].operator(), ch[0].children().len()) {
            (Operator::VariableIdentifierWrite { identifier }, 0) => identifier.clone(),
            _ => return Ast::Malformed("assignment whose first child is not a write identifier".into()),
        };
        return Ast::Assign(a, name, Box::new(normalise(&ch[1])));
    }
    match op {
        Operator::RootNode => match ch.len() {
            0 => Ast::Empty,
            1 => normalise(&ch[0]),
            k => Ast::Malformed(format!("root node with {} children", k)),
        },
        Operator::Neg | Operator::Not => {
            if ch.len() != 1 {
                return Ast::Malformed(format!("prefix operator with {} children", ch.len()));
            }
            let x = Box::new(normalise(&ch[0]));
            if matches!(op, Operator::Neg) {
                Ast::Neg(x)
            } else {
                Ast::Not(x)
            }
        },
        Operator::Tuple => Ast::Tuple(ch.iter().map(normalise).collect()),
        Operator::Chain => Ast::Chain(ch.iter().map(normalise).collect()),
        Operator::Const { value } => {
            if !ch.is_empty() {
                return Ast::Malformed("constant with children".into());
            }
            match value {
                Value::Tuple(_) | Value::Empty => Ast::Malformed("non-scalar constant".into()),
                v => Ast::Lit(to_rv(v)),
            }
        },
        Operator::VariableIdentifierRead { identifier } => {
            if !ch.is_empty() {
                return Ast::Malformed("variable with children".into());
            }
            Ast::Var(identifier.clone())
        },
        Operator::VariableIdentifierWrite { .. } => Ast::Malformed("write identifier outside an assignment".into()),
        Operator::FunctionIdentifier { identifier } => {
            if ch.len() != 1 {
                return Ast::Malformed(format!("call with {} children", ch.len()));
            }
            Ast::Call(identifier.clone(), Box::new(normalise(&ch[0])))
        },
        _ => Ast::Malformed("unknown operator".into()),
    }
}

/// C13: does every node have exactly the number of children its operator needs?
pub fn arity_ok(n: &Tree) -> bool {
    let k = n.children().len();
    let ok = match n.operator() {
        Operator::RootNode => k <= 1,
        Operator::Neg | Operator::Not | Operator::FunctionIdentifier { .. } => k == 1,
        Operator::Tuple | Operator::Chain => k >= 1,
        Operator::Const { .. } | Operator::VariableIdentifierRead { .. } | Operator::VariableIdentifierWrite { .. } => k == 0,
        _ => k == 2,
    };
    ok && n.children().iter().all(arity_ok)
}

/// Tree equality with NaN == NaN (D13): the derived PartialEq, or identical Debug text (a tree
/// holding the constant `nan` is not equal to itself under PartialEq).
pub fn tree_same(a: &Tree, b: &Tree) -> bool {
    // by Debug text, not by the library's own PartialEq (which is part of what is being checked)
    format!("{:?}", a) == format!("{:?}", b)
}

pub fn tree_depth(n: &Tree) -> usize {
    1 + n.children().iter().map(tree_depth).max().unwrap_or(0)
}

pub fn tree_size(n: &Tree) -> usize {
    1 + n.children().iter().map(tree_size).sum::<usize>()
}

// ---------------------------------------------------------------------------------------------
// contexts
// ---------------------------------------------------------------------------------------------

pub type Log = Arc<Mutex<Vec<CallRec>>>;

pub fn new_log() -> Log {
    Arc::new(Mutex::new(Vec::new()))
}

pub fn take_log(l: &Log) -> Vec<CallRec> {
    std::mem::take(&mut *l.lock().unwrap())
}

fn rv_err_to_real(e: RE) -> Err {
    match e {
        RE::Custom(m) => EvalexprError::CustomMessage(m),
        RE::FnNotFound(n) => EvalexprError::FunctionIdentifierNotFound(n),
        RE::Expected(Exp::Int, v) => EvalexprError::ExpectedInt { actual: from_rv(&v) },
        RE::Arity => EvalexprError::WrongFunctionArgumentAmount { expected: 3..=3, actual: 2 },
        RE::Type => EvalexprError::ExpectedFixedLengthTuple { expected_length: 3, actual: Val::Int(0) },
        RE::Arith => EvalexprError::DivisionError { dividend: Val::Int(1), divisor: Val::Int(0) },
        RE::VarNotFound(n) => EvalexprError::VariableIdentifierNotFound(n),
        other => EvalexprError::CustomMessage(format!("harness-uf-error:{:?}", other)),
    }
}

/// The real `Function` for a reference user function: logs (name, argument), then behaves as
/// `UF::apply`.
pub fn make_function(name: &str, uf: &UF, log: &Log) -> Function<DefaultNumericTypes> {
    let name = name.to_string();
    let uf = uf.clone();
    let log = log.clone();
    Function::new(move |arg: &Val| {
        let a = to_rv(arg);
        log.lock().unwrap().push(CallRec { name: name.clone(), arg: a.clone() });
        match uf.apply(&a) {
            Ok(v) => Ok(from_rv(&v)),
            Err(e) => Err(rv_err_to_real(e)),
        }
    })
}

/// Like `build_hashmap`, but the user functions do not log (for long concurrent runs).
pub fn build_hashmap_nolog(c: &Ctx) -> HCtx {
    let mut h = HCtx::new();
    for (k, v) in &c.vars {
        h.set_value(k.clone(), from_rv(v)).expect("fresh variable");
    }
    for (k, f) in &c.funcs {
        let uf = f.clone();
        let func = Function::new(move |arg: &Val| match uf.apply(&to_rv(arg)) {
            Ok(v) => Ok(from_rv(&v)),
            Err(e) => Err(rv_err_to_real(e)),
        });
        h.set_function(k.clone(), func).expect("set_function");
    }
    h.set_builtin_functions_disabled(c.builtins_disabled).expect("flag");
    h
}

/// Build the HashMapContext described by `c` through the public API.
pub fn build_hashmap(c: &Ctx, log: &Log) -> HCtx {
    let mut h = HCtx::new();
    for (k, v) in &c.vars {
        h.set_value(k.clone(), from_rv(v)).expect("fresh variable");
    }
    for (k, f) in &c.funcs {
        h.set_function(k.clone(), make_function(k, f, log)).expect("set_function");
    }
    h.set_builtin_functions_disabled(c.builtins_disabled).expect("flag");
    h
}

/// A context without variable storage: reads, functions and the builtin switch are delegated to a
/// HashMapContext; `set_value` is the trait's default (`ContextNotMutable`).
pub struct StorageLess(pub HCtx);

impl Context for StorageLess {
    type NumericTypes = DefaultNumericTypes;
    fn get_value(&self, identifier: &str) -> Option<&Val> {
        self.0.get_value(identifier)
    }
    fn call_function(&self, identifier: &str, argument: &Val) -> EvalexprResultValue {
        self.0.call_function(identifier, argument)
    }
    fn are_builtin_functions_disabled(&self) -> bool {
        self.0.are_builtin_functions_disabled()
    }
    fn set_builtin_functions_disabled(&mut self, disabled: bool) -> EvalexprResult<()> {
        self.0.set_builtin_functions_disabled(disabled)
    }
}
impl ContextWithMutableVariables for StorageLess {}

/// The real context for a reference context.
pub enum Real {
    HashMap(HCtx),
    Empty(EmptyContext<DefaultNumericTypes>),
    EmptyB(EmptyContextWithBuiltinFunctions<DefaultNumericTypes>),
    StorageLess(StorageLess),
}

pub fn build_real(c: &Ctx, log: &Log) -> Real {
    match c.kind {
        Kind::HashMap => Real::HashMap(build_hashmap(c, log)),
        Kind::Empty => Real::Empty(EmptyContext::default()),
        Kind::EmptyWithBuiltins => Real::EmptyB(EmptyContextWithBuiltinFunctions::default()),
        Kind::StorageLess => Real::StorageLess(StorageLess(build_hashmap(c, log))),
    }
}

impl Real {
    pub fn eval_imm(&self, tree: &Tree) -> EvalexprResultValue {
        match self {
            Real::HashMap(c) => tree.eval_with_context(c),
            Real::Empty(c) => tree.eval_with_context(c),
            Real::EmptyB(c) => tree.eval_with_context(c),
            Real::StorageLess(c) => tree.eval_with_context(c),
        }
    }
    pub fn eval_str_imm(&self, s: &str) -> EvalexprResultValue {
        match self {
            Real::HashMap(c) => evalexpr::eval_with_context(s, c),
            Real::Empty(c) => evalexpr::eval_with_context(s, c),
            Real::EmptyB(c) => evalexpr::eval_with_context(s, c),
            Real::StorageLess(c) => evalexpr::eval_with_context(s, c),
        }
    }
    /// `None` for the contexts that have no mutable interface.
    pub fn eval_mut(&mut self, tree: &Tree) -> Option<EvalexprResultValue> {
        match self {
            Real::HashMap(c) => Some(tree.eval_with_context_mut(c)),
            Real::StorageLess(c) => Some(tree.eval_with_context_mut(c)),
            _ => None,
        }
    }
    pub fn eval_str_mut(&mut self, s: &str) -> Option<EvalexprResultValue> {
        match self {
            Real::HashMap(c) => Some(evalexpr::eval_with_context_mut(s, c)),
            Real::StorageLess(c) => Some(evalexpr::eval_with_context_mut(s, c)),
            _ => None,
        }
    }
    pub fn hashmap(&self) -> Option<&HCtx> {
        match self {
            Real::HashMap(c) => Some(c),
            Real::StorageLess(c) => Some(&c.0),
            _ => None,
        }
    }
}

/// Observable state of a HashMapContext: variable listing (sorted), name listing (sorted), flag,
/// and for each probe name: `get_value`, and whether `call_function` resolves.
#[derive(Clone, Debug)]
pub struct Observed {
    pub listing: Vec<(String, RV)>,
    pub names: Vec<String>,
    pub disabled: bool,
    pub lookups: Vec<(String, Option<RV>)>,
    pub functions: Vec<(String, bool)>,
}

/// `fn_probes`: function names to probe with `call_function(name, Int(1))`; a name resolves iff
/// the result is not `FunctionIdentifierNotFound(name)`. Probing logs calls; the caller clears
/// the log afterwards.
pub fn observe(h: &HCtx, var_probes: &[String], fn_probes: &[String]) -> Observed {
    let mut listing: Vec<(String, RV)> = h.iter_variables().map(|(k, v)| (k, to_rv(&v))).collect();
    listing.sort_by(|a, b| a.0.cmp(&b.0));
    let mut names: Vec<String> = h.iter_variable_names().collect();
    names.sort();
    let lookups = var_probes.iter().map(|n| (n.clone(), h.get_value(n).map(to_rv))).collect();
    // A builtin name is probed only while builtins are disabled: with builtins enabled a context may
    // answer `call_function` for a builtin name itself or leave that to the evaluator — which layer
    // resolves builtins is not claimed by any property (resolution inside expressions is C09's).
    let builtins_on = !h.are_builtin_functions_disabled();
    let functions = fn_probes
        .iter()
        .filter(|n| !(builtins_on && refmodel::builtins::is_builtin(n)))
        .map(|n| {
            let r = h.call_function(n, &Value::Int(1));
            let found = !matches!(&r, Err(EvalexprError::FunctionIdentifierNotFound(m)) if m == n);
            (n.clone(), found)
        })
        .collect();
    Observed { listing, names, disabled: h.are_builtin_functions_disabled(), lookups, functions }
}

/// Compare an observed real state with the reference context. Returns a description of the first
/// difference.
pub fn state_diff(o: &Observed, c: &Ctx) -> Option<String> {
    let model: Vec<(String, RV)> = c.vars.iter().map(|(k, v)| (k.clone(), v.clone())).collect();
    if o.listing.len() != model.len() || !o.listing.iter().zip(&model).all(|(a, b)| a.0 == b.0 && a.1.same(&b.1)) {
        return Some(format!(
            "iter_variables {:?} != model {:?}",
            o.listing.iter().map(|(k, v)| format!("{}={}", k, v.canon())).collect::<Vec<_>>(),
            model.iter().map(|(k, v)| format!("{}={}", k, v.canon())).collect::<Vec<_>>()
        ));
    }
    let model_names: Vec<String> = c.vars.keys().cloned().collect();
    if o.names != model_names {
        return Some(format!("iter_variable_names {:?} != model {:?}", o.names, model_names));
    }
    if o.disabled != c.builtins_disabled {
        return Some(format!("builtin switch {} != model {}", o.disabled, c.builtins_disabled));
    }
    for (n, v) in &o.lookups {
        let m = c.vars.get(n);
        let same = match (v, m) {
            (None, None) => true,
            (Some(a), Some(b)) => a.same(b),
            _ => false,
        };
        if !same {
            return Some(format!(
                "get_value({}) = {:?} != model {:?}",
                n,
                v.as_ref().map(|x| x.canon()),
                m.map(|x| x.canon())
            ));
        }
    }
    for (n, found) in &o.functions {
        if *found != c.funcs.contains_key(n) {
            return Some(format!("call_function({}) resolves: {} != model {}", n, found, c.funcs.contains_key(n)));
        }
    }
    None
}
