//! Edge-value pools (DESIGN §3.7).

use crate::value::RV;

pub fn int_pool() -> Vec<i64> {
    let mut v: Vec<i64> = vec![0, 1, -1, 2, -2, 3, 7, 10, 63, 64, 65, 100, 1000];
    for p in [31u32, 32, 53, 62] {
        let x = 1i64 << p;
        v.extend_from_slice(&[x, -x]);
    }
    let p53 = 1i64 << 53;
    v.extend_from_slice(&[p53 + 1, p53 - 1, -(p53 + 1), -(p53 - 1)]);
    v.extend_from_slice(&[i64::MAX, i64::MAX - 1, i64::MIN, i64::MIN + 1]);
    v.sort();
    v.dedup();
    v
}

pub fn float_pool() -> Vec<f64> {
    let two63 = 9223372036854775808.0f64;
    let mut v = vec![
        0.0,
        -0.0,
        1.0,
        -1.0,
        0.5,
        -0.5,
        1.5,
        -1.5,
        2.5,
        -2.5,
        f64::from_bits(1),               // min subnormal
        f64::from_bits(0x000f_ffff_ffff_ffff), // max subnormal
        f64::MIN_POSITIVE,
        f64::MAX,
        -f64::MAX,
        f64::INFINITY,
        f64::NEG_INFINITY,
        f64::NAN,
        9007199254740992.0,
        -9007199254740992.0,
        two63,
        -two63,
        f64::from_bits(two63.to_bits() - 1),
        f64::from_bits(two63.to_bits() + 1),
        -f64::from_bits(two63.to_bits() - 1),
        -f64::from_bits(two63.to_bits() + 1),
        1e19,
        -1e19,
        2e19,
        -2e19,
        std::f64::consts::PI,
        709.0,
        -745.0,
        3.0,
        64.0,
        10.0,
        1000.0,
        0.001,
        std::f64::consts::E,
    ];
    v.dedup_by(|a, b| a.to_bits() == b.to_bits());
    v
}

pub fn string_pool() -> Vec<&'static str> {
    vec![
        "", "a", "abc", " a ", "A", "ß", "äb", "日本", "a\"b\\c", "//", "/*", "1", "İ", "a\u{0301}", "😀x",
        // word-final capital sigma: str::to_lowercase is context dependent
        "ΟΔΟΣ",
        // long values whose renderings put multi-byte characters at every byte alignment
        "éééééééééééééééééééééééééééééééééééééééééééééééééééééééééééé",
        "xééééééééééééééééééééééééééééééééééééééééééééééééééééééééééé",
        "漢漢漢漢漢漢漢漢漢漢漢漢漢漢漢漢漢漢漢漢漢漢漢漢漢漢漢漢漢漢漢漢漢漢漢漢漢漢漢漢",
        "ab漢漢漢漢漢漢漢漢漢漢漢漢漢漢漢漢漢漢漢漢漢漢漢漢漢漢漢漢漢漢漢漢漢漢漢漢漢漢漢",
    ]
}

pub fn tuple_pool() -> Vec<RV> {
    use RV::*;
    vec![
        Tuple(vec![]),
        Tuple(vec![Int(1)]),
        Tuple(vec![Int(1), Int(2)]),
        Tuple(vec![Int(1), Float(2.0)]),
        Tuple(vec![Str("a".into()), Bool(true)]),
        Tuple(vec![Tuple(vec![Int(1), Int(2)]), Int(3)]),
        Tuple(vec![Tuple(vec![]), Tuple(vec![])]),
        Tuple(vec![Float(f64::NAN)]),
        Tuple(vec![Empty]),
        Tuple(vec![Str("äb".into()), Int(1), Int(2)]),
        // a matching scalar followed by a forbidden element (contains_any must still reject it)
        Tuple(vec![Int(1), Tuple(vec![Int(1), Int(2)])]),
        Tuple(vec![Int(1), Int(2), Int(3)]),
    ]
}

/// The full value pool (≈ 90 values): every type, every edge listed in DESIGN §3.7.
pub fn value_pool() -> Vec<RV> {
    let mut v = Vec::new();
    v.extend(int_pool().into_iter().map(RV::Int));
    v.extend(float_pool().into_iter().map(RV::Float));
    v.extend(string_pool().into_iter().map(|s| RV::Str(s.to_string())));
    v.push(RV::Bool(true));
    v.push(RV::Bool(false));
    v.push(RV::Empty);
    v.extend(tuple_pool());
    v
}

/// A smaller pool used where the cube of the pool is enumerated (arity 3).
pub fn small_pool() -> Vec<RV> {
    use RV::*;
    vec![
        Int(0),
        Int(1),
        Int(-1),
        Int(2),
        Int(3),
        Int(64),
        Int(i64::MAX),
        Int(i64::MIN),
        Float(0.0),
        Float(1.5),
        Float(-2.5),
        Float(f64::INFINITY),
        Float(f64::NAN),
        Float(1e19),
        Str("".into()),
        Str("abc".into()),
        Str("äb".into()),
        Str("日本".into()),
        Bool(true),
        Bool(false),
        Empty,
        Tuple(vec![]),
        Tuple(vec![Int(1), Int(2)]),
        Tuple(vec![Str("a".into()), Bool(true)]),
    ]
}

/// Can the value be written as a literal expression? Returns the source text.
/// Non-negative ints, finite non-negative floats, strings, bools, `()`, and tuples of those.
pub fn literal_text(v: &RV) -> Option<String> {
    match v {
        RV::Int(i) if *i >= 0 => Some(i.to_string()),
        RV::Int(i) if *i > i64::MIN => Some(format!("-{}", -i)),
        RV::Int(_) => None,
        RV::Float(f) if f.is_finite() => {
            if f.is_sign_negative() {
                Some(format!("-{:?}", -f))
            } else {
                Some(format!("{:?}", f))
            }
        },
        RV::Float(_) => None,
        RV::Str(s) => Some(crate::tok::quote(s)),
        RV::Bool(b) => Some(b.to_string()),
        RV::Empty => Some("()".into()),
        RV::Tuple(t) => {
            if t.len() < 2 {
                // `()` is Empty and `(x)` is x: tuples of length 0 and 1 have no literal form
                return None;
            }
            let mut parts = Vec::new();
            for e in t {
                parts.push(literal_text(e)?);
            }
            Some(format!("({})", parts.join(", ")))
        },
    }
}
