//! Generators: proptest strategies (random, shrinking) and exhaustive enumerators (DESIGN §3.7).

use proptest::collection::vec as pvec;
use proptest::prelude::*;
use proptest::sample::select;

use crate::ast::{AssignOp, Ast, BinOp};
use crate::builtins::BUILTINS;
use crate::interp::{Ctx, Kind, UF};
use crate::pools;
use crate::tok::Tok;
use crate::value::RV;

// ---------------------------------------------------------------------------------------------
// values
// ---------------------------------------------------------------------------------------------

pub fn arb_int() -> BoxedStrategy<i64> {
    prop_oneof![
        4 => select(pools::int_pool()),
        3 => (select(pools::int_pool()), -3i64..=3).prop_map(|(a, d)| a.wrapping_add(d)),
        2 => any::<i64>(),
        2 => -100i64..=100,
    ]
    .boxed()
}

pub fn arb_float() -> BoxedStrategy<f64> {
    prop_oneof![
        4 => select(pools::float_pool()),
        2 => (select(pools::float_pool()), -2i64..=2).prop_map(|(f, d)| {
            if f.is_nan() { f } else { f64::from_bits((f.to_bits() as i64).wrapping_add(d) as u64) }
        }),
        2 => any::<u64>().prop_map(f64::from_bits),
        2 => (-1000i32..=1000, 1u32..=16).prop_map(|(n, d)| n as f64 / d as f64),
    ]
    .boxed()
}

const STRING_ATOMS: [&str; 40] = [
    "", "a", "b", "abc", " ", "  ", "\t", "\n", "A", "ß", "ä", "äb", "日本", "İ", "😀", "\"", "\\", "\\\"", "//", "/*",
    "*/", "+", "-", "=", "(", ")", ",", ";", "&", "|", "1", "1e", "0x", "true", "\u{0}", "\u{a0}", "\u{2028}", "e\u{0301}",
    "ǅ", "ﬁ",
];

/// Unicode text: mixture of arbitrary strings and concatenations of troublemaker atoms.
pub fn arb_text() -> BoxedStrategy<String> {
    prop_oneof![
        3 => select(pools::string_pool()).prop_map(|s| s.to_string()),
        4 => pvec(select(STRING_ATOMS.to_vec()), 0..6).prop_map(|v| v.concat()),
        2 => any::<String>(),
        2 => pvec(any::<char>(), 0..8).prop_map(|v| v.into_iter().collect()),
    ]
    .boxed()
}

pub fn arb_scalar() -> BoxedStrategy<RV> {
    prop_oneof![
        4 => arb_int().prop_map(RV::Int),
        4 => arb_float().prop_map(RV::Float),
        3 => arb_text().prop_map(RV::Str),
        1 => any::<bool>().prop_map(RV::Bool),
        1 => Just(RV::Empty),
    ]
    .boxed()
}

pub fn arb_value() -> BoxedStrategy<RV> {
    let leaf = prop_oneof![
        10 => arb_scalar(),
        3 => select(pools::tuple_pool()),
    ];
    leaf.prop_recursive(3, 12, 4, |inner| pvec(inner, 0..4).prop_map(RV::Tuple)).boxed()
}

// ---------------------------------------------------------------------------------------------
// ASTs inside the claimed domain
// ---------------------------------------------------------------------------------------------

#[derive(Clone, Debug)]
pub struct AstCfg {
    pub vars: Vec<String>,
    pub funcs: Vec<String>,
    pub assignments: bool,
    pub sequences: bool,
    pub depth: u32,
    pub size: u32,
    /// literal strategy
    pub rich_literals: bool,
    /// also use D6 words (inf, nan, out-of-range integer literals) as opaque operands
    pub opaque: bool,
}

impl AstCfg {
    pub fn names(v: &[&str]) -> Vec<String> {
        v.iter().map(|s| s.to_string()).collect()
    }
    pub fn structural(depth: u32) -> AstCfg {
        AstCfg {
            vars: Self::names(&["a", "b", "c", "x"]),
            funcs: Self::names(&["f", "g", "min", "str::from"]),
            assignments: true,
            sequences: true,
            depth,
            size: 40,
            rich_literals: false,
            opaque: false,
        }
    }
}

/// D6 words: the documentation does not say whether they are numbers or identifiers.
pub const D6_WORDS: [&str; 10] = [
    "inf",
    "nan",
    "NaN",
    "Infinity",
    "9223372036854775808",
    "99999999999999999999",
    "0x8000000000000000",
    "0xFFFFFFFFFFFFFFFF",
    "0xdeadbeefdeadbeef",
    "0x10000000000000000",
];

pub fn arb_literal(rich: bool) -> BoxedStrategy<Ast> {
    if rich {
        prop_oneof![
            4 => arb_int().prop_map(|i| RV::Int(if i == i64::MIN { 0 } else { i.abs() })),
            4 => arb_float().prop_map(|f| RV::Float(if f.is_finite() { f.abs() } else { 1.5 })),
            2 => arb_text().prop_map(RV::Str),
            1 => any::<bool>().prop_map(RV::Bool),
        ]
        .prop_map(Ast::Lit)
        .boxed()
    } else {
        prop_oneof![
            4 => (0i64..10).prop_map(RV::Int),
            2 => select(vec![0.5f64, 1.5, 2.0, 1e-7, 3e10]).prop_map(RV::Float),
            1 => select(vec!["", "s", "a b"]).prop_map(|s| RV::Str(s.to_string())),
            1 => any::<bool>().prop_map(RV::Bool),
        ]
        .prop_map(Ast::Lit)
        .boxed()
    }
}

fn arb_binop() -> BoxedStrategy<BinOp> {
    select(BinOp::ALL.to_vec()).boxed()
}

fn arb_assignop() -> BoxedStrategy<AssignOp> {
    prop_oneof![
        3 => Just(AssignOp::Set),
        2 => select(AssignOp::ALL.to_vec()),
    ]
    .boxed()
}

/// Element lists for tuples / chains: length >= 2, empty elements allowed anywhere.
fn arb_elems(inner: BoxedStrategy<Ast>) -> BoxedStrategy<Vec<Ast>> {
    let elem = prop_oneof![
        1 => Just(Ast::Empty),
        5 => inner,
    ];
    pvec(elem, 2..5).boxed()
}

pub fn arb_ast(cfg: &AstCfg) -> BoxedStrategy<Ast> {
    let vars = cfg.vars.clone();
    let funcs = cfg.funcs.clone();
    let mut leaves: Vec<(u32, BoxedStrategy<Ast>)> =
        vec![(6, arb_literal(cfg.rich_literals)), (6, select(vars.clone()).prop_map(Ast::Var).boxed())];
    if cfg.opaque {
        leaves.push((1, select(D6_WORDS.to_vec()).prop_map(|w| Ast::Opaque(w.to_string())).boxed()));
    }
    let leaf = proptest::strategy::Union::new_weighted(leaves);
    let assignments = cfg.assignments;
    let sequences = cfg.sequences;
    leaf.prop_recursive(cfg.depth, cfg.size, 4, move |inner| {
        let inner: BoxedStrategy<Ast> = inner.boxed();
        let mut opts: Vec<(u32, BoxedStrategy<Ast>)> = Vec::new();
        opts.push((
            8,
            (arb_binop(), inner.clone(), inner.clone())
                .prop_map(|(o, a, b)| Ast::Bin(o, Box::new(a), Box::new(b)))
                .boxed(),
        ));
        opts.push((2, inner.clone().prop_map(|a| Ast::Neg(Box::new(a))).boxed()));
        opts.push((1, inner.clone().prop_map(|a| Ast::Not(Box::new(a))).boxed()));
        if !funcs.is_empty() {
            let arg = prop_oneof![
                6 => inner.clone(),
                1 => Just(Ast::Empty),
                2 => pvec(inner.clone(), 2..4).prop_map(Ast::Tuple),
            ];
            opts.push((3, (select(funcs.clone()), arg).prop_map(|(f, a)| Ast::Call(f, Box::new(a))).boxed()));
        }
        if assignments {
            opts.push((
                2,
                (arb_assignop(), select(vars.clone()), inner.clone())
                    .prop_map(|(o, n, e)| Ast::Assign(o, n, Box::new(e)))
                    .boxed(),
            ));
        }
        if sequences {
            opts.push((2, arb_elems(inner.clone()).prop_map(Ast::Tuple).boxed()));
            // chain members may themselves be tuples (`a, b; c`)
            let member = prop_oneof![
                3 => inner.clone(),
                1 => arb_elems(inner.clone()).prop_map(Ast::Tuple),
            ]
            .boxed();
            opts.push((2, arb_elems(member).prop_map(Ast::Chain).boxed()));
        }
        proptest::strategy::Union::new_weighted(opts)
    })
    .boxed()
}

/// Redundant-parenthesis / call-form choice bits for the renderer.
pub fn arb_bits() -> BoxedStrategy<Vec<bool>> {
    pvec(proptest::bool::weighted(0.3), 1..24).boxed()
}

// ---------------------------------------------------------------------------------------------
// token soups and raw strings
// ---------------------------------------------------------------------------------------------

pub fn op_tokens() -> Vec<Tok> {
    use Tok::*;
    vec![
        Plus, Minus, Star, Slash, Percent, Hat, Eq, Neq, Gt, Lt, Geq, Leq, And, Or, Not, LParen, RParen, Assign,
        PlusAssign, MinusAssign, StarAssign, SlashAssign, PercentAssign, HatAssign, AndAssign, OrAssign, Comma, Semi,
    ]
}

pub fn arb_soup_token() -> BoxedStrategy<Tok> {
    let idents: Vec<String> = ["a", "b", "x", "f", "g", "foo", "ä", "a.b", "x_1", "e", "1e", "0x", "1_000", "true1", "E5"]
        .iter()
        .map(|s| s.to_string())
        .chain(BUILTINS.iter().map(|s| s.to_string()))
        .collect();
    prop_oneof![
        10 => select(op_tokens()),
        3 => Just(Tok::LParen),
        3 => Just(Tok::RParen),
        6 => select(idents).prop_map(Tok::Ident),
        4 => arb_int().prop_map(|i| Tok::Int(if i == i64::MIN { 0 } else { i.abs() })),
        3 => arb_float().prop_map(|f| Tok::Float(if f.is_finite() { f.abs() } else { 2.5 })),
        1 => any::<bool>().prop_map(Tok::Bool),
        2 => arb_text().prop_map(Tok::Str),
        1 => select(D6_WORDS.to_vec()).prop_map(|w| Tok::Opaque(w.to_string())),
    ]
    .boxed()
}

pub fn arb_soup(max_len: usize) -> BoxedStrategy<Vec<Tok>> {
    pvec(arb_soup_token(), 0..max_len).boxed()
}

const RAW_ATOMS: [&str; 83] = [
    "٣", "５", "²", "½", "Ⅷ", "1e+٣", "2.5e-５", "rate-fee", "e-", "2e+*", "\r\n", "Σ",
    "0xFFFFFFFFFFFFFFFF", "0x8000000000000000", "0x10000000000000000", "0xdeadbeefdeadbeef", "18446744073709551615", "-9223372036854775808", "Infinity",
    "+", "-", "*", "/", "%", "^", "(", ")", ",", ";", "=", "!", "<", ">", "&", "|", "&&", "||", "==", "!=", "<=", ">=",
    "+=", "-=", "&&=", "||=", "\"", "\\", "\\\"", "//", "/*", "*/", "\n", " ", "\t", "\u{a0}", "a", "b", "f", "x", "1",
    "0", "9223372036854775807", "9223372036854775808", "0x", "0xff", "0x7fffffffffffffff", "1e", "e", "E", ".", "1.", ".5",
    "1e5", "inf", "nan", "true", "false", "min", "math::abs", "str::substring", "shl", "ä", "😀",
];

/// Raw Unicode source text: arbitrary strings mixed with a dictionary.
pub fn arb_raw(max_atoms: usize) -> BoxedStrategy<String> {
    prop_oneof![
        6 => pvec(select(RAW_ATOMS.to_vec()), 0..max_atoms).prop_map(|v| v.concat()),
        2 => any::<String>(),
        2 => pvec(prop_oneof![
                3 => select(RAW_ATOMS.to_vec()).prop_map(|s| s.to_string()),
                1 => any::<char>().prop_map(|c| c.to_string()),
             ], 0..max_atoms).prop_map(|v| v.concat()),
    ]
    .boxed()
}

// ---------------------------------------------------------------------------------------------
// contexts
// ---------------------------------------------------------------------------------------------

pub fn arb_uf() -> BoxedStrategy<UF> {
    prop_oneof![
        2 => Just(UF::Identity),
        1 => arb_scalar().prop_map(UF::Const),
        2 => (1i64..4).prop_map(UF::Tag),
        1 => (1u32..4).prop_map(UF::Fail),
        1 => Just(UF::IntPlus5),
        1 => Just(UF::FirstNumber),
    ]
    .boxed()
}

/// A HashMap-kind context with variables over `vars` and functions over `funcs`.
pub fn arb_ctx(vars: Vec<String>, funcs: Vec<String>) -> BoxedStrategy<Ctx> {
    let nv = vars.len();
    let nf = funcs.len();
    (
        pvec(proptest::option::weighted(0.7, arb_value()), nv..=nv),
        pvec(proptest::option::weighted(0.6, arb_uf()), nf..=nf),
        proptest::bool::weighted(0.2),
    )
        .prop_map(move |(vs, fs, disabled)| {
            let mut c = Ctx::new(Kind::HashMap);
            for (n, v) in vars.iter().zip(vs) {
                if let Some(v) = v {
                    c.vars.insert(n.clone(), v);
                }
            }
            for (n, f) in funcs.iter().zip(fs) {
                if let Some(f) = f {
                    c.funcs.insert(n.clone(), f);
                }
            }
            c.builtins_disabled = disabled;
            c
        })
        .boxed()
}

// ---------------------------------------------------------------------------------------------
// exhaustive token-sequence enumeration
// ---------------------------------------------------------------------------------------------

/// Base alphabet (16): one representative per lexical / precedence class.
pub fn base_alphabet() -> Vec<Tok> {
    use Tok::*;
    vec![
        Int(1),
        Ident("a".into()),
        Ident("f".into()),
        Plus,
        Star,
        Hat,
        Minus,
        Not,
        Eq,
        And,
        Assign,
        PlusAssign,
        LParen,
        RParen,
        Comma,
        Semi,
    ]
}

/// Alphabet for C13: base + `true`, so that `!`, `&&` have an operand they succeed on.
pub fn c13_alphabet() -> Vec<Tok> {
    let mut v = base_alphabet();
    v.push(Tok::Bool(true));
    v
}

/// Extended alphabet: base + `"s" true || < %= b`.
pub fn extended_alphabet() -> Vec<Tok> {
    use Tok::*;
    let mut v = base_alphabet();
    v.extend(vec![Str("s".into()), Bool(true), Or, Lt, PercentAssign, Ident("b".into())]);
    v
}

/// Sequence alphabet for C05 (7): `1 x = , ; ( )`.
pub fn sequence_alphabet() -> Vec<Tok> {
    use Tok::*;
    vec![Int(1), Ident("x".into()), Assign, Comma, Semi, LParen, RParen]
}

/// The `idx`-th sequence of length `len` over an alphabet of size `k` (little-endian digits).
pub fn nth_sequence(alphabet: &[Tok], len: usize, mut idx: u64, out: &mut Vec<Tok>) {
    out.clear();
    let k = alphabet.len() as u64;
    for _ in 0..len {
        out.push(alphabet[(idx % k) as usize].clone());
        idx /= k;
    }
}

pub fn count_sequences(k: usize, len: usize) -> u64 {
    (k as u64).pow(len as u32)
}
