//! Generators: proptest strategies (random, shrinking) and exhaustive enumerators (DESIGN §3.7).

use proptest::collection::vec as pvec;
use proptest::prelude::*;
use proptest::sample::select;

use crate::ast::{AssignOp, Ast, BinOp};
use crate::builtins::BUILTINS;
use crate::interp::{Ctx, Kind, UF};
use crate::pools;
use crate::tok::Tok;
use crate::value::RV;

// ---------------------------------------------------------------------------------------------
// values
// ---------------------------------------------------------------------------------------------

pub fn arb_int() -> BoxedStrategy<i64> {
    prop_oneof![
        4 => select(pools::int_pool()),
        3 => (select(pools::int_pool()), -3i64..=3).prop_map(|(a, d)| a.wrapping_add(d)),
        2 => any::<i64>(),
        2 => -100i64..=100,
    ]
    .boxed()
}

pub fn arb_float() -> BoxedStrategy<f64> {
    prop_oneof![
        4 => select(pools::float_pool()),
        2 => (select(pools::float_pool()), -2i64..=2).prop_map(|(f, d)| {
            if f.is_nan() { f } else { f64::from_bits((f.to_bits() as i64).wrapping_add(d) as u64) }
        }),
        2 => any::<u64>().prop_map(f64::from_bits),
        2 => (-1000i32..=1000, 1u32..=16).prop_map(|(n, d)| n as f64 / d as f64),
    ]
    .boxed()
}

const STRING_ATOMS: [&str; 40] = [
    "", "a", "b", "abc", " ", "  ", "\t", "\n", "A", "ß", "ä", "äb", "日本", "İ", "😀", "\"", "\\", "\\\"", "//", "/*",
    "*/", "+", "-", "=", "(", ")", ",", ";", "&", "|", "1", "1e", "0x", "true", "\u{0}", "\u{a0}", "\u{2028}", "e\u{0301}",
    "ǅ", "ﬁ",
];

/// Unicode text: mixture of arbitrary strings and concatenations of troublemaker atoms.
pub fn arb_text() -> BoxedStrategy<String> {
    prop_oneof![
        3 => select(pools::string_pool()).prop_map(|s| s.to_string()),
        4 => pvec(select(STRING_ATOMS.to_vec()), 0..6).prop_map(|v| v.concat()),
        2 => any::<String>(),
        2 => pvec(any::<char>(), 0..8).prop_map(|v| v.into_iter().collect()),
    ]
    .boxed()
}

/// Escape sequences of *other* languages' string syntax (`\n`, `\x41`, `\u{1F600}`, `\u0041`,
/// `\U0001F600`, `\N{..}`, octal, line continuation) with edge payloads (surrogates, values
/// beyond U+10FFFF, empty and non-hex payloads, unclosed braces). evalexpr documents only `\\`
/// and `\"`: every one of these is "any other escape" and must be an error.
pub fn arb_foreign_escape() -> BoxedStrategy<String> {
    const PAYLOADS: [&str; 30] = [
        "0", "00", "41", "7F", "80", "FF", "100", "0041", "D7FF", "D800", "d800", "DBFF", "DC00", "DFFF", "E000", "FFFD", "FFFF",
        "10000", "1F600", "10FFFF", "110000", "FFFFFF", "FFFFFFFF", "100000000", "FFFFFFFFFFFFFFFFF", "", "G", "-1", " 41", "4 1",
    ];
    let payload = prop_oneof![
        6 => select(PAYLOADS.to_vec()).prop_map(|s| s.to_string()),
        2 => any::<u32>().prop_map(|n| format!("{:X}", n)),
        1 => (0xD800u32..0xE000).prop_map(|n| format!("{:x}", n)),
        1 => "[0-9a-fA-F]{0,9}".prop_map(|s| s),
    ];
    let simple = select(vec![
        "n", "t", "r", "0", "a", "b", "f", "v", "e", "'", "/", "$", "`", "?", "s", "d", "w", " ", "\n", "\r\n", "{", "}", "(", "1", "012", "377", "400",
        "u", "x", "U", "N", "c", "cA", "p{L}", "&", "#",
    ])
    .prop_map(|s| format!("\\{}", s));
    prop_oneof![
        4 => simple,
        4 => payload.clone().prop_map(|p| format!("\\u{{{}}}", p)),
        1 => payload.clone().prop_map(|p| format!("\\u{{{}", p)),
        2 => payload.clone().prop_map(|p| format!("\\u{}", p)),
        1 => payload.clone().prop_map(|p| format!("\\U{}", p)),
        2 => payload.clone().prop_map(|p| format!("\\x{}", p)),
        1 => payload.clone().prop_map(|p| format!("\\x{{{}}}", p)),
        1 => payload.prop_map(|p| format!("\\N{{{}}}", p)),
    ]
    .boxed()
}

pub fn arb_scalar() -> BoxedStrategy<RV> {
    prop_oneof![
        4 => arb_int().prop_map(RV::Int),
        4 => arb_float().prop_map(RV::Float),
        3 => arb_text().prop_map(RV::Str),
        1 => any::<bool>().prop_map(RV::Bool),
        1 => Just(RV::Empty),
    ]
    .boxed()
}

pub fn arb_value() -> BoxedStrategy<RV> {
    let leaf = prop_oneof![
        10 => arb_scalar(),
        3 => select(pools::tuple_pool()),
    ];
    leaf.prop_recursive(3, 12, 4, |inner| pvec(inner, 0..4).prop_map(RV::Tuple)).boxed()
}

// ---------------------------------------------------------------------------------------------
// ASTs inside the claimed domain
// ---------------------------------------------------------------------------------------------

#[derive(Clone, Debug)]
pub struct AstCfg {
    pub vars: Vec<String>,
    pub funcs: Vec<String>,
    pub assignments: bool,
    pub sequences: bool,
    pub depth: u32,
    pub size: u32,
    /// literal strategy
    pub rich_literals: bool,
    /// also use D6 words (inf, nan, out-of-range integer literals) as opaque operands
    pub opaque: bool,
}

impl AstCfg {
    pub fn names(v: &[&str]) -> Vec<String> {
        v.iter().map(|s| s.to_string()).collect()
    }
    pub fn structural(depth: u32) -> AstCfg {
        AstCfg {
            vars: Self::names(&["a", "b", "c", "x"]),
            funcs: Self::names(&["f", "g", "min", "str::from"]),
            assignments: true,
            sequences: true,
            depth,
            size: 40,
            rich_literals: false,
            opaque: false,
        }
    }
}

/// D6 words: the documentation does not say whether they are numbers or identifiers.
pub const D6_WORDS: [&str; 10] = [
    "inf",
    "nan",
    "NaN",
    "Infinity",
    "9223372036854775808",
    "99999999999999999999",
    "0x8000000000000000",
    "0xFFFFFFFFFFFFFFFF",
    "0xdeadbeefdeadbeef",
    "0x10000000000000000",
];

pub fn arb_literal(rich: bool) -> BoxedStrategy<Ast> {
    if rich {
        prop_oneof![
            4 => arb_int().prop_map(|i| RV::Int(if i == i64::MIN { 0 } else { i.abs() })),
            4 => arb_float().prop_map(|f| RV::Float(if f.is_finite() { f.abs() } else { 1.5 })),
            2 => arb_text().prop_map(RV::Str),
            1 => any::<bool>().prop_map(RV::Bool),
        ]
        .prop_map(Ast::Lit)
        .boxed()
    } else {
        prop_oneof![
            4 => (0i64..10).prop_map(RV::Int),
            2 => select(vec![0.5f64, 1.5, 2.0, 1e-7, 3e10]).prop_map(RV::Float),
            1 => select(vec!["", "s", "a b"]).prop_map(|s| RV::Str(s.to_string())),
            1 => any::<bool>().prop_map(RV::Bool),
        ]
        .prop_map(Ast::Lit)
        .boxed()
    }
}

fn arb_binop() -> BoxedStrategy<BinOp> {
    select(BinOp::ALL.to_vec()).boxed()
}

fn arb_assignop() -> BoxedStrategy<AssignOp> {
    prop_oneof![
        3 => Just(AssignOp::Set),
        2 => select(AssignOp::ALL.to_vec()),
    ]
    .boxed()
}

/// Element lists for tuples / chains: length >= 2, empty elements allowed anywhere.
fn arb_elems(inner: BoxedStrategy<Ast>) -> BoxedStrategy<Vec<Ast>> {
    let elem = prop_oneof![
        1 => Just(Ast::Empty),
        5 => inner,
    ];
    pvec(elem, 2..5).boxed()
}

pub fn arb_ast(cfg: &AstCfg) -> BoxedStrategy<Ast> {
    let vars = cfg.vars.clone();
    let funcs = cfg.funcs.clone();
    let mut leaves: Vec<(u32, BoxedStrategy<Ast>)> =
        vec![(6, arb_literal(cfg.rich_literals)), (6, select(vars.clone()).prop_map(Ast::Var).boxed())];
    if cfg.opaque {
        leaves.push((1, select(D6_WORDS.to_vec()).prop_map(|w| Ast::Opaque(w.to_string())).boxed()));
    }
    let leaf = proptest::strategy::Union::new_weighted(leaves);
    let assignments = cfg.assignments;
    let sequences = cfg.sequences;
    leaf.prop_recursive(cfg.depth, cfg.size, 4, move |inner| {
        let inner: BoxedStrategy<Ast> = inner.boxed();
        let mut opts: Vec<(u32, BoxedStrategy<Ast>)> = Vec::new();
        opts.push((
            8,
            (arb_binop(), inner.clone(), inner.clone())
                .prop_map(|(o, a, b)| Ast::Bin(o, Box::new(a), Box::new(b)))
                .boxed(),
        ));
        opts.push((2, inner.clone().prop_map(|a| Ast::Neg(Box::new(a))).boxed()));
        opts.push((1, inner.clone().prop_map(|a| Ast::Not(Box::new(a))).boxed()));
        if !funcs.is_empty() {
            let arg = prop_oneof![
                6 => inner.clone(),
                1 => Just(Ast::Empty),
                2 => pvec(inner.clone(), 2..4).prop_map(Ast::Tuple),
            ];
            opts.push((3, (select(funcs.clone()), arg).prop_map(|(f, a)| Ast::Call(f, Box::new(a))).boxed()));
        }
        if assignments {
            opts.push((
                2,
                (arb_assignop(), select(vars.clone()), inner.clone())
                    .prop_map(|(o, n, e)| Ast::Assign(o, n, Box::new(e)))
                    .boxed(),
            ));
        }
        if sequences {
            opts.push((2, arb_elems(inner.clone()).prop_map(Ast::Tuple).boxed()));
            // chain members may themselves be tuples (`a, b; c`)
            let member = prop_oneof![
                3 => inner.clone(),
                1 => arb_elems(inner.clone()).prop_map(Ast::Tuple),
            ]
            .boxed();
            opts.push((2, arb_elems(member).prop_map(Ast::Chain).boxed()));
        }
        proptest::strategy::Union::new_weighted(opts)
    })
    .boxed()
}

/// Redundant-parenthesis / call-form choice bits for the renderer.
pub fn arb_bits() -> BoxedStrategy<Vec<bool>> {
    pvec(proptest::bool::weighted(0.3), 1..24).boxed()
}

// ---------------------------------------------------------------------------------------------
// token soups and raw strings
// ---------------------------------------------------------------------------------------------

pub fn op_tokens() -> Vec<Tok> {
    use Tok::*;
    vec![
        Plus, Minus, Star, Slash, Percent, Hat, Eq, Neq, Gt, Lt, Geq, Leq, And, Or, Not, LParen, RParen, Assign,
        PlusAssign, MinusAssign, StarAssign, SlashAssign, PercentAssign, HatAssign, AndAssign, OrAssign, Comma, Semi,
    ]
}

pub fn arb_soup_token() -> BoxedStrategy<Tok> {
    let idents: Vec<String> = ["a", "b", "x", "f", "g", "foo", "ä", "a.b", "x_1", "e", "1e", "0x", "1_000", "true1", "E5"]
        .iter()
        .map(|s| s.to_string())
        .chain(BUILTINS.iter().map(|s| s.to_string()))
        .collect();
    prop_oneof![
        10 => select(op_tokens()),
        3 => Just(Tok::LParen),
        3 => Just(Tok::RParen),
        6 => select(idents).prop_map(Tok::Ident),
        4 => arb_int().prop_map(|i| Tok::Int(if i == i64::MIN { 0 } else { i.abs() })),
        3 => arb_float().prop_map(|f| Tok::Float(if f.is_finite() { f.abs() } else { 2.5 })),
        1 => any::<bool>().prop_map(Tok::Bool),
        2 => arb_text().prop_map(Tok::Str),
        1 => select(D6_WORDS.to_vec()).prop_map(|w| Tok::Opaque(w.to_string())),
    ]
    .boxed()
}

pub fn arb_soup(max_len: usize) -> BoxedStrategy<Vec<Tok>> {
    pvec(arb_soup_token(), 0..max_len).boxed()
}

const RAW_ATOMS: [&str; 83] = [
    "٣", "５", "²", "½", "Ⅷ", "1e+٣", "2.5e-５", "rate-fee", "e-", "2e+*", "\r\n", "Σ",
    "0xFFFFFFFFFFFFFFFF", "0x8000000000000000", "0x10000000000000000", "0xdeadbeefdeadbeef", "18446744073709551615", "-9223372036854775808", "Infinity",
    "+", "-", "*", "/", "%", "^", "(", ")", ",", ";", "=", "!", "<", ">", "&", "|", "&&", "||", "==", "!=", "<=", ">=",
    "+=", "-=", "&&=", "||=", "\"", "\\", "\\\"", "//", "/*", "*/", "\n", " ", "\t", "\u{a0}", "a", "b", "f", "x", "1",
    "0", "9223372036854775807", "9223372036854775808", "0x", "0xff", "0x7fffffffffffffff", "1e", "e", "E", ".", "1.", ".5",
    "1e5", "inf", "nan", "true", "false", "min", "math::abs", "str::substring", "shl", "ä", "😀",
];

/// Raw Unicode source text: arbitrary strings mixed with a dictionary.
pub fn arb_raw(max_atoms: usize) -> BoxedStrategy<String> {
    prop_oneof![
        6 => pvec(select(RAW_ATOMS.to_vec()), 0..max_atoms).prop_map(|v| v.concat()),
        2 => any::<String>(),
        2 => pvec(prop_oneof![
                3 => select(RAW_ATOMS.to_vec()).prop_map(|s| s.to_string()),
                1 => any::<char>().prop_map(|c| c.to_string()),
             ], 0..max_atoms).prop_map(|v| v.concat()),
    ]
    .boxed()
}

// ---------------------------------------------------------------------------------------------
// contexts
// ---------------------------------------------------------------------------------------------

pub fn arb_uf() -> BoxedStrategy<UF> {
    prop_oneof![
        2 => Just(UF::Identity),
        1 => arb_scalar().prop_map(UF::Const),
        2 => (1i64..4).prop_map(UF::Tag),
        1 => (1u32..4).prop_map(UF::Fail),
        1 => Just(UF::IntPlus5),
        1 => Just(UF::FirstNumber),
    ]
    .boxed()
}

/// A HashMap-kind context with variables over `vars` and functions over `funcs`.
pub fn arb_ctx(vars: Vec<String>, funcs: Vec<String>) -> BoxedStrategy<Ctx> {
    let nv = vars.len();
    let nf = funcs.len();
    (
        pvec(proptest::option::weighted(0.7, arb_value()), nv..=nv),
        pvec(proptest::option::weighted(0.6, arb_uf()), nf..=nf),
        proptest::bool::weighted(0.2),
    )
        .prop_map(move |(vs, fs, disabled)| {
            let mut c = Ctx::new(Kind::HashMap);
            for (n, v) in vars.iter().zip(vs) {
                if let Some(v) = v {
                    c.vars.insert(n.clone(), v);
                }
            }
            for (n, f) in funcs.iter().zip(fs) {
                if let Some(f) = f {
                    c.funcs.insert(n.clone(), f);
                }
            }
            c.builtins_disabled = disabled;
            c
        })
        .boxed()
}

// ---------------------------------------------------------------------------------------------
// exhaustive token-sequence enumeration
// ---------------------------------------------------------------------------------------------

/// Base alphabet (16): one representative per lexical / precedence class.
pub fn base_alphabet() -> Vec<Tok> {
    use Tok::*;
    vec![
        Int(1),
        Ident("a".into()),
        Ident("f".into()),
        Plus,
        Star,
        Hat,
        Minus,
        Not,
        Eq,
        And,
        Assign,
        PlusAssign,
        LParen,
        RParen,
        Comma,
        Semi,
    ]
}

/// Alphabet for C13: base + `true`, so that `!`, `&&` have an operand they succeed on.
pub fn c13_alphabet() -> Vec<Tok> {
    let mut v = base_alphabet();
    v.push(Tok::Bool(true));
    v
}

/// Extended alphabet: base + `"s" true || < %= b`.
pub fn extended_alphabet() -> Vec<Tok> {
    use Tok::*;
    let mut v = base_alphabet();
    v.extend(vec![Str("s".into()), Bool(true), Or, Lt, PercentAssign, Ident("b".into())]);
    v
}

/// Sequence alphabet for C05 (7): `1 x = , ; ( )`.
pub fn sequence_alphabet() -> Vec<Tok> {
    use Tok::*;
    vec![Int(1), Ident("x".into()), Assign, Comma, Semi, LParen, RParen]
}

/// The `idx`-th sequence of length `len` over an alphabet of size `k` (little-endian digits).
pub fn nth_sequence(alphabet: &[Tok], len: usize, mut idx: u64, out: &mut Vec<Tok>) {
    out.clear();
    let k = alphabet.len() as u64;
    for _ in 0..len {
        out.push(alphabet[(idx % k) as usize].clone());
        idx /= k;
    }
}

pub fn count_sequences(k: usize, len: usize) -> u64 {
    (k as u64).pow(len as u32)
}

// ---------------------------------------------------------------------------------------------
// scale: programs whose size, count or length crosses the thresholds small examples never reach
// ---------------------------------------------------------------------------------------------

/// Sizes around the capacities such code typically has (inline buffers, u8 counters, block sizes).
pub const SCALE_SIZES: [usize; 27] =
    [1, 2, 3, 4, 7, 8, 9, 15, 16, 17, 31, 32, 33, 47, 63, 64, 65, 100, 127, 128, 129, 200, 255, 256, 257, 300, 400];

/// A program of one of the scaled shapes together with the context it is meant for. The context
/// has the recording functions `rec` (identity) and `tag` (Tag(1)) and integer variables as needed.
#[derive(Clone, Debug)]
pub struct Scaled {
    pub shape: &'static str,
    pub n: usize,
    pub ast: Ast,
    pub ctx: Ctx,
}

pub const SCALED_SHAPES: usize = 17;

pub fn scaled(shape: usize, n: usize, salt: u64) -> Scaled {
    use crate::ast::{AssignOp, BinOp};
    let lit = |i: usize| Ast::Lit(RV::Int(i as i64));
    let var = |i: usize| Ast::Var(format!("v{}", i));
    let mut ctx = Ctx::hashmap();
    ctx.funcs.insert("rec".into(), UF::Identity);
    ctx.funcs.insert("tag".into(), UF::Tag(1));
    let bind = |ctx: &mut Ctx, k: usize| {
        for i in 0..k {
            ctx.vars.insert(format!("v{}", i), RV::Int((i as i64) * 3 + 1));
        }
    };
    let pick = |i: usize| -> Ast {
        match (i as u64 + salt) % 4 {
            0 => lit(i),
            1 => var(i),
            2 => Ast::Call("rec".into(), Box::new(lit(i))),
            _ => Ast::Lit(RV::Str(format!("s{}", i))),
        }
    };
    let (name, ast): (&'static str, Ast) = match shape % SCALED_SHAPES {
        0 => {
            bind(&mut ctx, n);
            ("tuple of n mixed elements", Ast::Tuple((0..n.max(2)).map(pick).collect()))
        },
        1 => {
            let mut v: Vec<Ast> = vec![Ast::Assign(AssignOp::Set, "x".into(), Box::new(lit(0)))];
            for i in 1..n.max(2) {
                v.push(if (i as u64 + salt) % 3 == 0 {
                    Ast::Call("rec".into(), Box::new(Ast::Var("x".into())))
                } else {
                    Ast::Assign(AssignOp::Add, "x".into(), Box::new(lit(i)))
                });
            }
            v.push(Ast::Var("x".into()));
            ("chain of n statements on one variable", Ast::Chain(v))
        },
        2 => {
            bind(&mut ctx, n);
            let mut e = var(0);
            for i in 1..n.max(2) {
                let op = if (i as u64 + salt) % 5 == 0 { BinOp::Sub } else { BinOp::Add };
                e = Ast::Bin(op, Box::new(e), Box::new(var(i)));
            }
            ("sum over n distinct variables", e)
        },
        3 => {
            bind(&mut ctx, n);
            let f = ["min", "max", "rec", "tag", "str::from", "len", "typeof"][(salt % 7) as usize];
            ("call with an n-tuple argument", Ast::Call(f.into(), Box::new(Ast::Tuple((0..n.max(2)).map(|i| if i % 2 == 0 { lit(i) } else { var(i) }).collect()))))
        },
        4 => {
            // n distinct variables assigned, then all read
            // right-hand sides of 1, 2 and 3 tokens, so that identifiers fall on every token offset
            let rhs = |i: usize| match (i as u64 + salt) % 3 {
                0 => lit(i * 7),
                1 => Ast::Neg(Box::new(lit(i * 7))),
                _ => Ast::Bin(BinOp::Add, Box::new(lit(i)), Box::new(lit(i * 6))),
            };
            let mut v: Vec<Ast> = (0..n).map(|i| Ast::Assign(AssignOp::Set, format!("v{}", i), Box::new(rhs(i)))).collect();
            v.push(Ast::Tuple((0..n.max(2)).map(var).collect()));
            ("n distinct variables assigned, then read", Ast::Chain(v))
        },
        5 => {
            let needle = if salt % 2 == 0 { n.saturating_sub(1) } else { n + 5 };
            let hay = Ast::Tuple((0..n.max(2)).map(lit).collect());
            let f = if salt % 3 == 0 { "contains_any" } else { "contains" };
            let arg = if f == "contains" { Ast::Tuple(vec![hay, lit(needle)]) } else { Ast::Tuple(vec![hay, Ast::Tuple(vec![lit(n + 9), lit(needle)])]) };
            ("contains / contains_any on an n-element tuple", Ast::Call(f.into(), Box::new(arg)))
        },
        6 => {
            let name: String = std::iter::once('q').chain((0..n).map(|i| char::from(b'a' + ((i as u64 + salt) % 26) as u8))).collect();
            ctx.vars.insert(name.clone(), RV::Int(5));
            ("identifier of n characters", Ast::Chain(vec![Ast::Assign(AssignOp::Mul, name.clone(), Box::new(lit(3))), Ast::Bin(BinOp::Add, Box::new(Ast::Var(name)), Box::new(lit(1)))]))
        },
        7 => {
            let text: String = (0..n).map(|i| ['a', 'ä', ' ', '"', '\\', 'z', '/', '*'][((i as u64 * 7 + salt) % 8) as usize]).collect();
            let f = ["len", "str::to_uppercase", "str::trim", "rec"][(salt % 4) as usize];
            ("string literal of n characters", Ast::Call(f.into(), Box::new(Ast::Lit(RV::Str(text)))))
        },
        8 => {
            // n nested calls / parentheses around a sum
            // effectful operands at the innermost point: their order and number must survive the depth
            let mut e = Ast::Bin(BinOp::Sub, Box::new(Ast::Call("rec".into(), Box::new(lit(1)))), Box::new(Ast::Call("tag".into(), Box::new(lit(2)))));
            for i in 0..n.min(300) {
                e = match (i as u64 + salt) % 3 {
                    0 => Ast::Call("rec".into(), Box::new(e)),
                    1 => Ast::Neg(Box::new(e)),
                    _ => Ast::Bin(BinOp::Mul, Box::new(lit(1)), Box::new(e)),
                };
            }
            ("n nested applications", e)
        },
        9 => {
            // tuple of n assignments' results and reads: effects inside a wide tuple
            let v: Vec<Ast> = (0..n.max(2))
                .map(|i| if i % 2 == 0 { Ast::Chain(vec![Ast::Assign(AssignOp::Set, format!("v{}", i % 5), Box::new(lit(i))), Ast::Var(format!("v{}", i % 5))]) } else { Ast::Call("tag".into(), Box::new(lit(i))) })
                .collect();
            ("tuple of n effectful elements", Ast::Tuple(v))
        },
        10 => {
            bind(&mut ctx, n);
            // comparison / logic chain over n variables
            let mut e = Ast::Bin(BinOp::Lt, Box::new(var(0)), Box::new(lit(1_000_000)));
            for i in 1..n.max(2) {
                let c = Ast::Bin(BinOp::Geq, Box::new(var(i)), Box::new(lit(0)));
                e = Ast::Bin(if (i as u64 + salt) % 4 == 0 { BinOp::Or } else { BinOp::And }, Box::new(e), Box::new(c));
            }
            ("logic chain over n comparisons", e)
        },
        12 => {
            // a sequence open at every one of n nesting levels: `1, (1, (1, ... (1, 2)))`, `0; (0; ( ... ))`,
            // `x = 0; 7, (x = 0; 7, ( ... ))`
            let depth = n.min(300);
            let mut e = Ast::Tuple(vec![lit(1), lit(2)]);
            for i in 0..depth {
                e = match salt % 3 {
                    0 => Ast::Tuple(vec![lit(i), e]),
                    1 => Ast::Chain(vec![lit(0), e]),
                    _ => Ast::Chain(vec![Ast::Assign(AssignOp::Set, "x".into(), Box::new(lit(i))), Ast::Tuple(vec![lit(7), e])]),
                };
            }
            ("sequence open at each of n nesting levels", e)
        },
        13 => {
            // n plain nesting levels of parentheses and calls around a value
            let mut e = match salt % 3 {
                0 => lit(1),
                1 => Ast::Bin(BinOp::Sub, Box::new(Ast::Call("rec".into(), Box::new(lit(1)))), Box::new(Ast::Call("rec".into(), Box::new(lit(2))))),
                _ => Ast::Chain(vec![
                    Ast::Assign(AssignOp::Set, "a".into(), Box::new(lit(1))),
                    Ast::Assign(AssignOp::Set, "a".into(), Box::new(lit(2))),
                    Ast::Var("a".into()),
                ]),
            };
            for i in 0..n.min(400) {
                e = if (i as u64 + salt) % 4 == 0 { Ast::Call("rec".into(), Box::new(e)) } else { Ast::Paren(Box::new(e)) };
            }
            ("n nesting levels of parentheses", e)
        },
        14 => {
            // an unparenthesised run of n operands of ONE operator (left-deep by associativity), the
            // operands being recorded calls, with one operand of the wrong type in the middle: the
            // application that fails stops the evaluation right after its right operand
            let (op, bad): (BinOp, Ast) = match salt % 4 {
                0 => (BinOp::Add, Ast::Lit(RV::Bool(true))),
                1 => (BinOp::Mul, Ast::Lit(RV::Str("x".into()))),
                2 => (BinOp::And, lit(7)),
                _ => (BinOp::Or, lit(7)),
            };
            let operand = |i: usize| -> Ast {
                let v = if matches!(op, BinOp::And | BinOp::Or) { Ast::Lit(RV::Bool(matches!(op, BinOp::And))) } else { lit(i % 3) };
                Ast::Call("rec".into(), Box::new(v))
            };
            let len = n.max(3);
            let bad_at = (len + 1) / 2;
            let mut e = operand(0);
            for i in 1..len {
                let rhs = if i == bad_at { bad.clone() } else { operand(i) };
                e = Ast::Bin(op, Box::new(e), Box::new(rhs));
            }
            ("run of n operands of one operator with a failing application in the middle", e)
        },
        15 => {
            // a long flat expression over all binary operators with prefixed operands, written without
            // parentheses; its tree is whatever the reference parser says
            bind(&mut ctx, 4);
            let ops = ["+", "*", "-", "^", "<", "&&", "==", "/", "||", "%", ">=", "!=", "+", "*"];
            let mut src = String::new();
            let mut last_op = "";
            for i in 0..n.max(2).min(170) {
                if i > 0 {
                    last_op = ops[((i as u64 * 5 + salt) % ops.len() as u64) as usize];
                    src.push_str(&format!(" {} ", last_op));
                }
                // no prefixed operand directly behind `^` (D3)
                let prefix = match (i as u64 * 7 + salt) % 5 {
                    0 if last_op != "^" => "- ",
                    1 if last_op != "^" => "! ",
                    _ => "",
                };
                let base = if prefix == "! " { "true".to_string() } else if i % 3 == 0 { format!("v{}", i % 4) } else { format!("{}", i % 5 + 1) };
                src.push_str(prefix);
                src.push_str(&base);
            }
            let toks = crate::tok::lex(&src).expect("flat source lexes").toks;
            let ast = match crate::parse::classify(&toks) {
                crate::parse::Class::WellFormed(a) => a.strip_parens(),
                _ => lit(0),
            };
            ("long flat expression over all operators with prefixed operands", ast)
        },
        _ => {
            // the failure sits at position n - 1 of a long chain: everything before must have happened
            // n effectful statements, one of which (in the middle or near the end) fails: everything
            // before it must have happened, nothing after it may happen
            let len = n.max(3);
            let fail_at = if salt % 2 == 0 { len / 2 } else { len - 2 };
            let v: Vec<Ast> = (0..len)
                .map(|i| {
                    if i == fail_at {
                        Ast::Bin(BinOp::Div, Box::new(lit(n)), Box::new(lit(0)))
                    } else if i % 2 == 0 {
                        Ast::Assign(AssignOp::Set, format!("v{}", i % 7), Box::new(lit(i)))
                    } else {
                        Ast::Call("rec".into(), Box::new(lit(i)))
                    }
                })
                .collect();
            let seq = if salt % 3 == 0 { Ast::Tuple(v) } else { Ast::Chain(v) };
            ("sequence of n effectful elements, one of which fails", seq)
        },
    };
    Scaled { shape: name, n, ast, ctx }
}

/// Random scaled programs (shape, size from SCALE_SIZES, salt).
pub fn arb_scaled() -> BoxedStrategy<Scaled> {
    (0usize..SCALED_SHAPES, 0usize..SCALE_SIZES.len(), 0u64..64).prop_map(|(s, k, salt)| scaled(s, SCALE_SIZES[k], salt)).boxed()
}

/// Every (shape, size) once, salt derived from the pair.
pub fn all_scaled() -> Vec<Scaled> {
    let mut v = Vec::new();
    for s in 0..SCALED_SHAPES {
        for (k, n) in SCALE_SIZES.iter().enumerate() {
            v.push(scaled(s, *n, (s * 31 + k * 7) as u64));
        }
    }
    v
}
