//! Reference model for evalexpr, written from the documentation and the property statements.
//! This crate must never depend on evalexpr (DESIGN R2).

pub mod ast;
pub mod builtins;
pub mod gen;
pub mod interp;
pub mod ops;
pub mod parse;
pub mod pools;
pub mod tok;
pub mod value;
