//! Reference values and error classes (DESIGN §3.1). No dependency on evalexpr.

use std::fmt;

/// Reference value. Floats compare by bit pattern except NaN == NaN (D13).
#[derive(Clone, Debug)]
pub enum RV {
    Str(String),
    Float(f64),
    Int(i64),
    Bool(bool),
    Tuple(Vec<RV>),
    Empty,
}

#[derive(Clone, Copy, Debug, PartialEq, Eq, Hash, PartialOrd, Ord)]
pub enum Tag {
    Str,
    Float,
    Int,
    Bool,
    Tuple,
    Empty,
}

impl Tag {
    pub fn name(self) -> &'static str {
        match self {
            Tag::Str => "string",
            Tag::Float => "float",
            Tag::Int => "int",
            Tag::Bool => "boolean",
            Tag::Tuple => "tuple",
            Tag::Empty => "empty",
        }
    }
    pub const ALL: [Tag; 6] = [Tag::Str, Tag::Float, Tag::Int, Tag::Bool, Tag::Tuple, Tag::Empty];
}

impl RV {
    pub fn tag(&self) -> Tag {
        match self {
            RV::Str(_) => Tag::Str,
            RV::Float(_) => Tag::Float,
            RV::Int(_) => Tag::Int,
            RV::Bool(_) => Tag::Bool,
            RV::Tuple(_) => Tag::Tuple,
            RV::Empty => Tag::Empty,
        }
    }
    pub fn is_number(&self) -> bool {
        matches!(self, RV::Int(_) | RV::Float(_))
    }
    pub fn as_f64(&self) -> Option<f64> {
        match self {
            RV::Int(i) => Some(*i as f64),
            RV::Float(f) => Some(*f),
            _ => None,
        }
    }
    /// Harness identity: bit-exact floats, NaN == NaN.
    pub fn same(&self, other: &RV) -> bool {
        match (self, other) {
            (RV::Str(a), RV::Str(b)) => a == b,
            (RV::Float(a), RV::Float(b)) => (a.is_nan() && b.is_nan()) || a.to_bits() == b.to_bits(),
            (RV::Int(a), RV::Int(b)) => a == b,
            (RV::Bool(a), RV::Bool(b)) => a == b,
            (RV::Tuple(a), RV::Tuple(b)) => a.len() == b.len() && a.iter().zip(b).all(|(x, y)| x.same(y)),
            (RV::Empty, RV::Empty) => true,
            _ => false,
        }
    }
    /// The language's `==`: same variant, equal payload, IEEE on floats.
    pub fn lang_eq(&self, other: &RV) -> bool {
        match (self, other) {
            (RV::Str(a), RV::Str(b)) => a == b,
            (RV::Float(a), RV::Float(b)) => a == b,
            (RV::Int(a), RV::Int(b)) => a == b,
            (RV::Bool(a), RV::Bool(b)) => a == b,
            (RV::Tuple(a), RV::Tuple(b)) => a.len() == b.len() && a.iter().zip(b).all(|(x, y)| x.lang_eq(y)),
            (RV::Empty, RV::Empty) => true,
            _ => false,
        }
    }
    pub fn has_nan(&self) -> bool {
        match self {
            RV::Float(f) => f.is_nan(),
            RV::Tuple(t) => t.iter().any(|v| v.has_nan()),
            _ => false,
        }
    }
    /// Canonical, injective (up to `same`) text used for hashing / samples / replay files.
    pub fn canon(&self) -> String {
        let mut s = String::new();
        self.canon_into(&mut s);
        s
    }
    fn canon_into(&self, out: &mut String) {
        match self {
            RV::Str(s) => {
                out.push_str("S:");
                out.push_str(&format!("{:?}", s));
            },
            RV::Float(f) => {
                if f.is_nan() {
                    out.push_str("F:nan");
                } else {
                    out.push_str(&format!("F:{:016x}", f.to_bits()));
                }
            },
            RV::Int(i) => out.push_str(&format!("I:{}", i)),
            RV::Bool(b) => out.push_str(&format!("B:{}", b)),
            RV::Tuple(t) => {
                out.push_str("T[");
                for (i, v) in t.iter().enumerate() {
                    if i > 0 {
                        out.push(',');
                    }
                    v.canon_into(out);
                }
                out.push(']');
            },
            RV::Empty => out.push_str("E"),
        }
    }
    /// Parse the output of `canon` (replay files).
    pub fn from_canon(s: &str) -> Option<RV> {
        let mut p = CanonParser { s: s.as_bytes(), i: 0 };
        let v = p.value()?;
        if p.i == p.s.len() {
            Some(v)
        } else {
            None
        }
    }
    pub fn depth(&self) -> usize {
        match self {
            RV::Tuple(t) => 1 + t.iter().map(|v| v.depth()).max().unwrap_or(0),
            _ => 0,
        }
    }
}

struct CanonParser<'a> {
    s: &'a [u8],
    i: usize,
}
impl<'a> CanonParser<'a> {
    fn eat(&mut self, p: &str) -> bool {
        if self.s[self.i..].starts_with(p.as_bytes()) {
            self.i += p.len();
            true
        } else {
            false
        }
    }
    fn value(&mut self) -> Option<RV> {
        if self.eat("S:") {
            // Rust debug string: parse until the closing unescaped quote.
            let start = self.i;
            if self.s.get(self.i) != Some(&b'"') {
                return None;
            }
            self.i += 1;
            loop {
                match self.s.get(self.i)? {
                    b'\\' => self.i += 2,
                    b'"' => {
                        self.i += 1;
                        break;
                    },
                    _ => self.i += 1,
                }
            }
            let lit = std::str::from_utf8(&self.s[start..self.i]).ok()?;
            Some(RV::Str(unescape_debug(lit)?))
        } else if self.eat("F:nan") {
            Some(RV::Float(f64::NAN))
        } else if self.eat("F:") {
            let h = std::str::from_utf8(self.s.get(self.i..self.i + 16)?).ok()?;
            self.i += 16;
            Some(RV::Float(f64::from_bits(u64::from_str_radix(h, 16).ok()?)))
        } else if self.eat("I:") {
            let start = self.i;
            while self.i < self.s.len() && (self.s[self.i] == b'-' || self.s[self.i].is_ascii_digit()) {
                self.i += 1;
            }
            Some(RV::Int(std::str::from_utf8(&self.s[start..self.i]).ok()?.parse().ok()?))
        } else if self.eat("B:true") {
            Some(RV::Bool(true))
        } else if self.eat("B:false") {
            Some(RV::Bool(false))
        } else if self.eat("T[") {
            let mut v = Vec::new();
            if self.eat("]") {
                return Some(RV::Tuple(v));
            }
            loop {
                v.push(self.value()?);
                if self.eat("]") {
                    return Some(RV::Tuple(v));
                }
                if !self.eat(",") {
                    return None;
                }
            }
        } else if self.eat("E") {
            Some(RV::Empty)
        } else {
            None
        }
    }
}

/// Inverse of `format!("{:?}", s)` for strings.
pub fn unescape_debug(lit: &str) -> Option<String> {
    let inner = lit.strip_prefix('"')?.strip_suffix('"')?;
    let mut out = String::new();
    let mut it = inner.chars();
    while let Some(c) = it.next() {
        if c != '\\' {
            out.push(c);
            continue;
        }
        match it.next()? {
            'n' => out.push('\n'),
            'r' => out.push('\r'),
            't' => out.push('\t'),
            '0' => out.push('\0'),
            '\\' => out.push('\\'),
            '"' => out.push('"'),
            '\'' => out.push('\''),
            'u' => {
                if it.next()? != '{' {
                    return None;
                }
                let mut h = String::new();
                loop {
                    let c = it.next()?;
                    if c == '}' {
                        break;
                    }
                    h.push(c);
                }
                out.push(char::from_u32(u32::from_str_radix(&h, 16).ok()?)?);
            },
            _ => return None,
        }
    }
    Some(out)
}

/// Language-level display of a value (what `str::from` and `Display` document): used by the
/// reference `str::from` and for human-readable samples.
impl fmt::Display for RV {
    fn fmt(&self, f: &mut fmt::Formatter) -> fmt::Result {
        match self {
            RV::Str(s) => write!(f, "\"{}\"", s),
            RV::Float(x) => write!(f, "{}", x),
            RV::Int(i) => write!(f, "{}", i),
            RV::Bool(b) => write!(f, "{}", b),
            RV::Tuple(t) => {
                write!(f, "(")?;
                for (i, v) in t.iter().enumerate() {
                    if i > 0 {
                        write!(f, ", ")?;
                    }
                    write!(f, "{}", v)?;
                }
                write!(f, ")")
            },
            RV::Empty => write!(f, "()"),
        }
    }
}

/// What an `Expected…{actual}` error expects.
#[derive(Clone, Copy, Debug, PartialEq, Eq, Hash)]
pub enum Exp {
    Str,
    Int,
    Float,
    Number,
    NumberOrString,
    Bool,
    Tuple,
    Empty,
}

impl Exp {
    pub fn of_tag(t: Tag) -> Exp {
        match t {
            Tag::Str => Exp::Str,
            Tag::Float => Exp::Float,
            Tag::Int => Exp::Int,
            Tag::Bool => Exp::Bool,
            Tag::Tuple => Exp::Tuple,
            Tag::Empty => Exp::Empty,
        }
    }
}

/// Reference error. The *expected* side may use the class-level variants; the adapter maps a real
/// error to its most exact form and `matches` widens (D5).
#[derive(Clone, Debug)]
pub enum RE {
    /// Integer overflow / division by zero (Addition…ModulationError, NegationError).
    Arith,
    /// Any type error (Expected*, TypeError, WrongTypeCombination, tuple-length errors).
    Type,
    /// Wrong operator / function argument amount.
    Arity,
    /// OutOfBoundsAccess, IntFromUsize, IntIntoUsize.
    Range,
    /// "An error raised by a builtin" (C10: "an error", the variant is not pinned down).
    Builtin,
    /// D8: the exact result fits but Rust reports overflow: value or arithmetic error accepted.
    ArithOr(Box<RV>),
    VarNotFound(String),
    FnNotFound(String),
    NotMutable,
    /// Exact `Expected<T>{actual}`.
    Expected(Exp, RV),
    Custom(String),
    /// Error raised while building the tree / tokenizing; payload = variant name.
    Build(String),
    /// Errors about toggling builtins on the empty contexts.
    CannotEnable,
    CannotDisable,
    /// The reference declines to define a result (an unclaimed region was touched).
    Unclaimed(&'static str),
    /// Anything else (adapter side only).
    Other(String),
}

impl RE {
    pub fn class(&self) -> &'static str {
        match self {
            RE::Arith => "arith",
            RE::Type | RE::Expected(..) => "type",
            RE::Arity => "arity",
            RE::Range => "range",
            RE::Builtin => "builtin",
            RE::ArithOr(_) => "arith-or",
            RE::VarNotFound(_) => "var-not-found",
            RE::FnNotFound(_) => "fn-not-found",
            RE::NotMutable => "not-mutable",
            RE::Custom(_) => "custom",
            RE::Build(_) => "build",
            RE::CannotEnable => "cannot-enable",
            RE::CannotDisable => "cannot-disable",
            RE::Unclaimed(_) => "unclaimed",
            RE::Other(_) => "other",
        }
    }
    pub fn is_unclaimed(&self) -> bool {
        matches!(self, RE::Unclaimed(_))
    }
    /// Does the actual error `act` (exact form, from the adapter) satisfy the expectation `self`?
    pub fn matches(&self, act: &RE) -> bool {
        match (self, act) {
            (RE::Arith, RE::Arith) => true,
            (RE::Type, RE::Type) | (RE::Type, RE::Expected(..)) => true,
            (RE::Arity, RE::Arity) => true,
            (RE::Range, RE::Range) => true,
            // "an error" (C10 does not pin the variant): anything a builtin may return, but not the
            // errors the evaluator itself raises when resolution goes wrong
            (RE::Builtin, a) => !matches!(a, RE::VarNotFound(_) | RE::FnNotFound(_) | RE::NotMutable | RE::Build(_) | RE::Unclaimed(_)),
            (RE::ArithOr(_), RE::Arith) => true,
            (RE::VarNotFound(a), RE::VarNotFound(b)) => a == b,
            (RE::FnNotFound(a), RE::FnNotFound(b)) => a == b,
            (RE::NotMutable, RE::NotMutable) => true,
            (RE::Expected(e, v), RE::Expected(f, w)) => e == f && v.same(w),
            (RE::Custom(a), RE::Custom(b)) => a == b,
            (RE::Build(a), RE::Build(b)) => a == b,
            (RE::CannotEnable, RE::CannotEnable) => true,
            (RE::CannotDisable, RE::CannotDisable) => true,
            _ => false,
        }
    }
    pub fn canon(&self) -> String {
        match self {
            RE::Expected(e, v) => format!("Expected({:?},{})", e, v.canon()),
            RE::ArithOr(v) => format!("ArithOr({})", v.canon()),
            other => format!("{:?}", other),
        }
    }
}

pub type RR = Result<RV, RE>;

/// Does the actual outcome satisfy the expected outcome?
pub fn outcome_matches(exp: &RR, act: &RR) -> bool {
    match (exp, act) {
        (Ok(a), Ok(b)) => a.same(b),
        (Err(RE::ArithOr(v)), Ok(b)) => v.same(b),
        (Err(e), Err(a)) => e.matches(a),
        _ => false,
    }
}

pub fn outcome_canon(r: &RR) -> String {
    match r {
        Ok(v) => format!("Ok({})", v.canon()),
        Err(e) => format!("Err({})", e.canon()),
    }
}
