//! Reference operator table (C03): i128 / f64, independent of evalexpr.

use crate::ast::BinOp;
use crate::value::{RE, RR, RV};

fn narrow(x: i128) -> RR {
    if x >= i64::MIN as i128 && x <= i64::MAX as i128 {
        Ok(RV::Int(x as i64))
    } else {
        Err(RE::Arith)
    }
}

fn num_or_str(v: &RV) -> bool {
    matches!(v, RV::Int(_) | RV::Float(_) | RV::Str(_))
}

pub fn binop(op: BinOp, a: &RV, b: &RV) -> RR {
    use BinOp::*;
    match op {
        Add => match (a, b) {
            (RV::Str(x), RV::Str(y)) => Ok(RV::Str(format!("{}{}", x, y))),
            (RV::Int(x), RV::Int(y)) => narrow(*x as i128 + *y as i128),
            _ if a.is_number() && b.is_number() => Ok(RV::Float(a.as_f64().unwrap() + b.as_f64().unwrap())),
            _ => Err(RE::Type),
        },
        Sub | Mul | Div | Mod => match (a, b) {
            (RV::Int(x), RV::Int(y)) => {
                let (x, y) = (*x as i128, *y as i128);
                match op {
                    Sub => narrow(x - y),
                    Mul => narrow(x * y),
                    Div => {
                        if y == 0 {
                            Err(RE::Arith)
                        } else {
                            // i128 `/` truncates toward zero
                            narrow(x / y)
                        }
                    },
                    Mod => {
                        if y == 0 {
                            Err(RE::Arith)
                        } else if x == i64::MIN as i128 && y == -1 {
                            // D8: the exact result 0 fits, Rust's checked_rem reports overflow
                            Err(RE::ArithOr(Box::new(RV::Int(0))))
                        } else {
                            // i128 `%` takes the dividend's sign
                            narrow(x % y)
                        }
                    },
                    _ => unreachable!(),
                }
            },
            _ if a.is_number() && b.is_number() => {
                let (x, y) = (a.as_f64().unwrap(), b.as_f64().unwrap());
                Ok(RV::Float(match op {
                    Sub => x - y,
                    Mul => x * y,
                    Div => x / y,
                    Mod => x % y,
                    _ => unreachable!(),
                }))
            },
            _ => Err(RE::Type),
        },
        Exp => {
            if a.is_number() && b.is_number() {
                Ok(RV::Float(a.as_f64().unwrap().powf(b.as_f64().unwrap())))
            } else {
                Err(RE::Type)
            }
        },
        Lt | Gt | Leq | Geq => {
            if !num_or_str(a) || !num_or_str(b) {
                return Err(RE::Type);
            }
            let ord = |lt: bool, gt: bool, eq: bool| -> bool {
                match op {
                    Lt => lt,
                    Gt => gt,
                    Leq => lt || eq,
                    Geq => gt || eq,
                    _ => unreachable!(),
                }
            };
            match (a, b) {
                (RV::Str(x), RV::Str(y)) => Ok(RV::Bool(ord(x < y, x > y, x == y))),
                (RV::Int(x), RV::Int(y)) => Ok(RV::Bool(ord(x < y, x > y, x == y))),
                _ if a.is_number() && b.is_number() => {
                    // D7: both converted to double, IEEE comparison (all false with NaN)
                    let (x, y) = (a.as_f64().unwrap(), b.as_f64().unwrap());
                    Ok(RV::Bool(ord(x < y, x > y, x == y)))
                },
                _ => Err(RE::Type),
            }
        },
        Eq => Ok(RV::Bool(a.lang_eq(b))),
        Neq => Ok(RV::Bool(!a.lang_eq(b))),
        And | Or => match (a, b) {
            (RV::Bool(x), RV::Bool(y)) => Ok(RV::Bool(if op == And { *x && *y } else { *x || *y })),
            _ => Err(RE::Type),
        },
    }
}

pub fn neg(a: &RV) -> RR {
    match a {
        RV::Int(x) => narrow(-(*x as i128)),
        RV::Float(x) => Ok(RV::Float(-*x)),
        _ => Err(RE::Type),
    }
}

pub fn not(a: &RV) -> RR {
    match a {
        RV::Bool(x) => Ok(RV::Bool(!*x)),
        _ => Err(RE::Type),
    }
}
