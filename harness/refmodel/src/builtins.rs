//! Reference builtin functions (C10), written from the documentation table.

use crate::value::{RE, RR, RV};

pub const BUILTINS: [&str; 49] = [
    "math::ln",
    "math::log",
    "math::log2",
    "math::log10",
    "math::exp",
    "math::exp2",
    "math::pow",
    "math::cos",
    "math::acos",
    "math::cosh",
    "math::acosh",
    "math::sin",
    "math::asin",
    "math::sinh",
    "math::asinh",
    "math::tan",
    "math::atan",
    "math::tanh",
    "math::atanh",
    "math::atan2",
    "math::sqrt",
    "math::cbrt",
    "math::hypot",
    "floor",
    "round",
    "ceil",
    "math::is_nan",
    "math::is_finite",
    "math::is_infinite",
    "math::is_normal",
    "math::abs",
    "typeof",
    "min",
    "max",
    "if",
    "contains",
    "contains_any",
    "len",
    "str::to_lowercase",
    "str::to_uppercase",
    "str::trim",
    "str::from",
    "str::substring",
    "bitand",
    "bitor",
    "bitxor",
    "bitnot",
    "shl",
    "shr",
];

pub fn is_builtin(name: &str) -> bool {
    BUILTINS.contains(&name)
}

/// Indexing unit of `len` / `str::substring` (D11: only their mutual consistency is claimed; the
/// unit is observed once per run from `len("ä")`).
#[derive(Clone, Copy, Debug, PartialEq, Eq)]
pub enum Unit {
    Bytes,
    Chars,
}

/// Outcome of a reference builtin.
#[derive(Clone, Debug)]
pub enum BOut {
    /// exactly this value (bit-exact floats, NaN == NaN)
    Val(RV),
    /// an error (any variant a builtin may raise)
    Err,
    /// validity predicate with several correct outputs (min / max)
    OneOf(Vec<RV>),
    /// the documentation does not define the result (D11)
    Unclaimed(&'static str),
}

impl BOut {
    pub fn accepts(&self, act: &RR) -> bool {
        match (self, act) {
            (BOut::Val(v), Ok(a)) => v.same(a),
            (BOut::Err, Err(e)) => RE::Builtin.matches(e),
            (BOut::OneOf(vs), Ok(a)) => vs.iter().any(|v| v.same(a) || zero_equiv(v, a)),
            (BOut::Unclaimed(_), _) => true,
            _ => false,
        }
    }
    /// Collapse to a single deterministic result for use inside the reference interpreter;
    /// ambiguous outcomes become `Unclaimed`.
    pub fn to_rr(&self) -> RR {
        match self {
            BOut::Val(v) => Ok(v.clone()),
            BOut::Err => Err(RE::Builtin),
            BOut::OneOf(vs) => {
                if vs.len() == 1 || vs.iter().all(|v| v.same(&vs[0])) {
                    Ok(vs[0].clone())
                } else {
                    Err(RE::Unclaimed("min/max with several valid results"))
                }
            },
            BOut::Unclaimed(w) => Err(RE::Unclaimed(w)),
        }
    }
    pub fn describe(&self) -> String {
        match self {
            BOut::Val(v) => format!("Val({})", v.canon()),
            BOut::Err => "Err".into(),
            BOut::OneOf(vs) => format!("OneOf[{}]", vs.iter().map(|v| v.canon()).collect::<Vec<_>>().join(" | ")),
            BOut::Unclaimed(w) => format!("Unclaimed({})", w),
        }
    }
}

fn zero_equiv(a: &RV, b: &RV) -> bool {
    matches!((a, b), (RV::Float(x), RV::Float(y)) if *x == 0.0 && *y == 0.0)
}

fn num(v: &RV) -> Option<f64> {
    v.as_f64()
}

fn two_nums(arg: &RV) -> Option<(f64, f64)> {
    match arg {
        RV::Tuple(t) if t.len() == 2 => Some((num(&t[0])?, num(&t[1])?)),
        _ => None,
    }
}

fn two_ints(arg: &RV) -> Option<(i64, i64)> {
    match arg {
        RV::Tuple(t) if t.len() == 2 => match (&t[0], &t[1]) {
            (RV::Int(a), RV::Int(b)) => Some((*a, *b)),
            _ => None,
        },
        _ => None,
    }
}

fn is_scalar(v: &RV) -> bool {
    matches!(v, RV::Str(_) | RV::Int(_) | RV::Float(_) | RV::Bool(_))
}

/// `a <= b` in the numeric order of D7: ints exactly among ints, otherwise as doubles.
fn num_le(a: &RV, b: &RV) -> bool {
    match (a, b) {
        (RV::Int(x), RV::Int(y)) => x <= y,
        _ => a.as_f64().unwrap() <= b.as_f64().unwrap(),
    }
}

fn min_max(arg: &RV, want_min: bool) -> BOut {
    let args: Vec<RV> = match arg {
        RV::Tuple(t) => t.clone(),
        v if v.is_number() => vec![v.clone()],
        _ => return BOut::Err,
    };
    if args.is_empty() || args.iter().any(|a| !a.is_number()) {
        return BOut::Err;
    }
    if args.iter().any(|a| a.has_nan()) {
        return BOut::Unclaimed("min/max with NaN");
    }
    let cands: Vec<RV> = args
        .iter()
        .filter(|c| args.iter().all(|o| if want_min { num_le(c, o) } else { num_le(o, c) }))
        .cloned()
        .collect();
    if cands.is_empty() {
        // the mixed order is not transitive around 2^53..2^63; nothing can be demanded then
        return BOut::Unclaimed("min/max: no extremal argument under the mixed order");
    }
    BOut::OneOf(cands)
}

fn count_u(s: &str, u: Unit) -> usize {
    match u {
        Unit::Bytes => s.len(),
        Unit::Chars => s.chars().count(),
    }
}

/// slice [a, b) in unit u; None if out of range or (bytes) not on a character boundary
fn slice_u(s: &str, a: usize, b: usize, u: Unit) -> Option<String> {
    if a > b || b > count_u(s, u) {
        return None;
    }
    match u {
        Unit::Bytes => {
            if s.is_char_boundary(a) && s.is_char_boundary(b) {
                Some(s[a..b].to_string())
            } else {
                None
            }
        },
        Unit::Chars => Some(s.chars().skip(a).take(b - a).collect()),
    }
}

macro_rules! math1 {
    ($arg:expr, $f:expr) => {
        match num($arg) {
            Some(x) => BOut::Val(RV::Float($f(x))),
            None => BOut::Err,
        }
    };
}
macro_rules! math2 {
    ($arg:expr, $f:expr) => {
        match two_nums($arg) {
            Some((a, b)) => BOut::Val(RV::Float($f(a, b))),
            None => BOut::Err,
        }
    };
}
macro_rules! pred1 {
    ($arg:expr, $f:expr) => {
        match num($arg) {
            Some(x) => BOut::Val(RV::Bool($f(x))),
            None => BOut::Err,
        }
    };
}

/// Reference result of builtin `name` applied to `arg`. `None` if `name` is not a builtin.
pub fn builtin(name: &str, arg: &RV, unit: Unit) -> Option<BOut> {
    Some(match name {
        "math::ln" => math1!(arg, f64::ln),
        "math::log" => math2!(arg, |x: f64, base: f64| x.log(base)),
        "math::log2" => math1!(arg, f64::log2),
        "math::log10" => math1!(arg, f64::log10),
        "math::exp" => math1!(arg, f64::exp),
        "math::exp2" => math1!(arg, f64::exp2),
        "math::pow" => math2!(arg, |a: f64, b: f64| a.powf(b)),
        "math::cos" => math1!(arg, f64::cos),
        "math::acos" => math1!(arg, f64::acos),
        "math::cosh" => math1!(arg, f64::cosh),
        "math::acosh" => math1!(arg, f64::acosh),
        "math::sin" => math1!(arg, f64::sin),
        "math::asin" => math1!(arg, f64::asin),
        "math::sinh" => math1!(arg, f64::sinh),
        "math::asinh" => math1!(arg, f64::asinh),
        "math::tan" => math1!(arg, f64::tan),
        "math::atan" => math1!(arg, f64::atan),
        "math::tanh" => math1!(arg, f64::tanh),
        "math::atanh" => math1!(arg, f64::atanh),
        "math::atan2" => math2!(arg, |y: f64, x: f64| y.atan2(x)),
        "math::sqrt" => math1!(arg, f64::sqrt),
        "math::cbrt" => math1!(arg, f64::cbrt),
        "math::hypot" => math2!(arg, |a: f64, b: f64| a.hypot(b)),
        "floor" => math1!(arg, f64::floor),
        "round" => math1!(arg, f64::round),
        "ceil" => math1!(arg, f64::ceil),
        "math::is_nan" => pred1!(arg, f64::is_nan),
        "math::is_finite" => pred1!(arg, f64::is_finite),
        "math::is_infinite" => pred1!(arg, f64::is_infinite),
        "math::is_normal" => pred1!(arg, f64::is_normal),
        "math::abs" => match arg {
            RV::Int(i) => match i.checked_abs() {
                Some(a) => BOut::Val(RV::Int(a)),
                None => BOut::Err,
            },
            RV::Float(f) => BOut::Val(RV::Float(f.abs())),
            _ => BOut::Err,
        },
        "typeof" => BOut::Val(RV::Str(arg.tag().name().to_string())),
        "min" => min_max(arg, true),
        "max" => min_max(arg, false),
        "if" => match arg {
            RV::Tuple(t) if t.len() == 3 => match &t[0] {
                RV::Bool(true) => BOut::Val(t[1].clone()),
                RV::Bool(false) => BOut::Val(t[2].clone()),
                _ => BOut::Err,
            },
            _ => BOut::Err,
        },
        "contains" => match arg {
            RV::Tuple(t) if t.len() == 2 => match (&t[0], &t[1]) {
                (RV::Tuple(hay), needle) if is_scalar(needle) => {
                    BOut::Val(RV::Bool(hay.iter().any(|h| h.lang_eq(needle))))
                },
                (RV::Tuple(_), RV::Empty) => BOut::Unclaimed("contains with an Empty needle"),
                _ => BOut::Err,
            },
            _ => BOut::Err,
        },
        "contains_any" => match arg {
            RV::Tuple(t) if t.len() == 2 => match (&t[0], &t[1]) {
                (RV::Tuple(hay), RV::Tuple(needles)) => {
                    if needles.iter().any(|n| matches!(n, RV::Tuple(_))) {
                        BOut::Err
                    } else if needles.iter().any(|n| matches!(n, RV::Empty)) {
                        BOut::Unclaimed("contains_any with an Empty needle")
                    } else {
                        BOut::Val(RV::Bool(needles.iter().any(|n| hay.iter().any(|h| h.lang_eq(n)))))
                    }
                },
                _ => BOut::Err,
            },
            _ => BOut::Err,
        },
        "len" => match arg {
            RV::Str(s) => BOut::Val(RV::Int(count_u(s, unit) as i64)),
            RV::Tuple(t) => BOut::Val(RV::Int(t.len() as i64)),
            _ => BOut::Err,
        },
        "str::to_lowercase" => match arg {
            RV::Str(s) => BOut::Val(RV::Str(s.to_lowercase())),
            _ => BOut::Err,
        },
        "str::to_uppercase" => match arg {
            RV::Str(s) => BOut::Val(RV::Str(s.to_uppercase())),
            _ => BOut::Err,
        },
        "str::trim" => match arg {
            RV::Str(s) => BOut::Val(RV::Str(s.trim().to_string())),
            _ => BOut::Err,
        },
        "str::from" => BOut::Val(RV::Str(match arg {
            RV::Str(s) => s.clone(),
            other => other.to_string(),
        })),
        "str::substring" => match arg {
            RV::Tuple(t) if t.len() == 2 || t.len() == 3 => {
                let s = match &t[0] {
                    RV::Str(s) => s,
                    _ => return Some(BOut::Err),
                };
                let start = match &t[1] {
                    RV::Int(i) => *i,
                    _ => return Some(BOut::Err),
                };
                let end = match t.get(2) {
                    Some(RV::Int(i)) => *i,
                    Some(_) => return Some(BOut::Err),
                    None => count_u(s, unit) as i64,
                };
                if start < 0 || end < 0 {
                    return Some(BOut::Err);
                }
                match slice_u(s, start as usize, end as usize, unit) {
                    Some(r) => BOut::Val(RV::Str(r)),
                    None => BOut::Err,
                }
            },
            _ => BOut::Err,
        },
        "bitand" => match two_ints(arg) {
            Some((a, b)) => BOut::Val(RV::Int(a & b)),
            None => BOut::Err,
        },
        "bitor" => match two_ints(arg) {
            Some((a, b)) => BOut::Val(RV::Int(a | b)),
            None => BOut::Err,
        },
        "bitxor" => match two_ints(arg) {
            Some((a, b)) => BOut::Val(RV::Int(a ^ b)),
            None => BOut::Err,
        },
        "bitnot" => match arg {
            RV::Int(a) => BOut::Val(RV::Int(!*a)),
            _ => BOut::Err,
        },
        "shl" | "shr" => match two_ints(arg) {
            Some((a, n)) => {
                if (0..=63).contains(&n) {
                    if name == "shl" {
                        // wrapping bits: computed on the unsigned pattern
                        BOut::Val(RV::Int(((a as u64) << n) as i64))
                    } else {
                        // arithmetic shift: floor division by 2^n
                        BOut::Val(RV::Int(((a as i128).div_euclid(1i128 << n)) as i64))
                    }
                } else {
                    BOut::Unclaimed("shift amount outside 0..63")
                }
            },
            None => BOut::Err,
        },
        _ => return None,
    })
}
