//! Reference AST, its rendering to token sequences (minimal / redundant parentheses), and helpers.

use crate::tok::Tok;
use crate::value::RV;

#[derive(Clone, Copy, Debug, PartialEq, Eq, Hash, PartialOrd, Ord)]
pub enum BinOp {
    Exp,
    Mul,
    Div,
    Mod,
    Add,
    Sub,
    Lt,
    Gt,
    Leq,
    Geq,
    Eq,
    Neq,
    And,
    Or,
}

impl BinOp {
    pub const ALL: [BinOp; 14] = [
        BinOp::Exp,
        BinOp::Mul,
        BinOp::Div,
        BinOp::Mod,
        BinOp::Add,
        BinOp::Sub,
        BinOp::Lt,
        BinOp::Gt,
        BinOp::Leq,
        BinOp::Geq,
        BinOp::Eq,
        BinOp::Neq,
        BinOp::And,
        BinOp::Or,
    ];
    /// The documented precedence table.
    pub fn prec(self) -> u32 {
        match self {
            BinOp::Exp => 120,
            BinOp::Mul | BinOp::Div | BinOp::Mod => 100,
            BinOp::Add | BinOp::Sub => 95,
            BinOp::Lt | BinOp::Gt | BinOp::Leq | BinOp::Geq | BinOp::Eq | BinOp::Neq => 80,
            BinOp::And => 75,
            BinOp::Or => 70,
        }
    }
    pub fn tok(self) -> Tok {
        match self {
            BinOp::Exp => Tok::Hat,
            BinOp::Mul => Tok::Star,
            BinOp::Div => Tok::Slash,
            BinOp::Mod => Tok::Percent,
            BinOp::Add => Tok::Plus,
            BinOp::Sub => Tok::Minus,
            BinOp::Lt => Tok::Lt,
            BinOp::Gt => Tok::Gt,
            BinOp::Leq => Tok::Leq,
            BinOp::Geq => Tok::Geq,
            BinOp::Eq => Tok::Eq,
            BinOp::Neq => Tok::Neq,
            BinOp::And => Tok::And,
            BinOp::Or => Tok::Or,
        }
    }
    pub fn from_tok(t: &Tok) -> Option<BinOp> {
        Some(match t {
            Tok::Hat => BinOp::Exp,
            Tok::Star => BinOp::Mul,
            Tok::Slash => BinOp::Div,
            Tok::Percent => BinOp::Mod,
            Tok::Plus => BinOp::Add,
            Tok::Minus => BinOp::Sub,
            Tok::Lt => BinOp::Lt,
            Tok::Gt => BinOp::Gt,
            Tok::Leq => BinOp::Leq,
            Tok::Geq => BinOp::Geq,
            Tok::Eq => BinOp::Eq,
            Tok::Neq => BinOp::Neq,
            Tok::And => BinOp::And,
            Tok::Or => BinOp::Or,
            _ => return None,
        })
    }
    pub fn sym(self) -> &'static str {
        match self {
            BinOp::Exp => "^",
            BinOp::Mul => "*",
            BinOp::Div => "/",
            BinOp::Mod => "%",
            BinOp::Add => "+",
            BinOp::Sub => "-",
            BinOp::Lt => "<",
            BinOp::Gt => ">",
            BinOp::Leq => "<=",
            BinOp::Geq => ">=",
            BinOp::Eq => "==",
            BinOp::Neq => "!=",
            BinOp::And => "&&",
            BinOp::Or => "||",
        }
    }
}

#[derive(Clone, Copy, Debug, PartialEq, Eq, Hash, PartialOrd, Ord)]
pub enum AssignOp {
    Set,
    Add,
    Sub,
    Mul,
    Div,
    Mod,
    Exp,
    And,
    Or,
}

impl AssignOp {
    pub const ALL: [AssignOp; 9] = [
        AssignOp::Set,
        AssignOp::Add,
        AssignOp::Sub,
        AssignOp::Mul,
        AssignOp::Div,
        AssignOp::Mod,
        AssignOp::Exp,
        AssignOp::And,
        AssignOp::Or,
    ];
    pub fn tok(self) -> Tok {
        match self {
            AssignOp::Set => Tok::Assign,
            AssignOp::Add => Tok::PlusAssign,
            AssignOp::Sub => Tok::MinusAssign,
            AssignOp::Mul => Tok::StarAssign,
            AssignOp::Div => Tok::SlashAssign,
            AssignOp::Mod => Tok::PercentAssign,
            AssignOp::Exp => Tok::HatAssign,
            AssignOp::And => Tok::AndAssign,
            AssignOp::Or => Tok::OrAssign,
        }
    }
    pub fn from_tok(t: &Tok) -> Option<AssignOp> {
        Some(match t {
            Tok::Assign => AssignOp::Set,
            Tok::PlusAssign => AssignOp::Add,
            Tok::MinusAssign => AssignOp::Sub,
            Tok::StarAssign => AssignOp::Mul,
            Tok::SlashAssign => AssignOp::Div,
            Tok::PercentAssign => AssignOp::Mod,
            Tok::HatAssign => AssignOp::Exp,
            Tok::AndAssign => AssignOp::And,
            Tok::OrAssign => AssignOp::Or,
            _ => return None,
        })
    }
    /// The plain operator `x op= e` stands for (`None` for `=`).
    pub fn binop(self) -> Option<BinOp> {
        Some(match self {
            AssignOp::Set => return None,
            AssignOp::Add => BinOp::Add,
            AssignOp::Sub => BinOp::Sub,
            AssignOp::Mul => BinOp::Mul,
            AssignOp::Div => BinOp::Div,
            AssignOp::Mod => BinOp::Mod,
            AssignOp::Exp => BinOp::Exp,
            AssignOp::And => BinOp::And,
            AssignOp::Or => BinOp::Or,
        })
    }
}

pub const PREC_ASSIGN: u32 = 50;
pub const PREC_PREFIX: u32 = 110;

#[derive(Clone, Debug)]
pub enum Ast {
    /// literal constant (Int, Float, Bool, Str only)
    Lit(RV),
    Var(String),
    Call(String, Box<Ast>),
    Neg(Box<Ast>),
    Not(Box<Ast>),
    Bin(BinOp, Box<Ast>, Box<Ast>),
    Assign(AssignOp, String, Box<Ast>),
    Tuple(Vec<Ast>),
    Chain(Vec<Ast>),
    /// absent element / `()`
    Empty,
    /// a D6 word used as an operand: matches a constant or a variable read of that word
    Opaque(String),
    /// explicit parenthesised group (only in trees produced by the reference parser)
    Paren(Box<Ast>),
    /// the real tree has a shape no well-formed source has (normaliser only)
    Malformed(String),
}

impl Ast {
    pub fn same(&self, o: &Ast) -> bool {
        use Ast::*;
        match (self, o) {
            (Lit(a), Lit(b)) => a.same(b),
            (Var(a), Var(b)) => a == b,
            (Call(a, x), Call(b, y)) => a == b && x.same(y),
            (Neg(a), Neg(b)) | (Not(a), Not(b)) | (Paren(a), Paren(b)) => a.same(b),
            (Bin(o1, a1, b1), Bin(o2, a2, b2)) => o1 == o2 && a1.same(a2) && b1.same(b2),
            (Assign(o1, n1, e1), Assign(o2, n2, e2)) => o1 == o2 && n1 == n2 && e1.same(e2),
            (Tuple(a), Tuple(b)) | (Chain(a), Chain(b)) => {
                a.len() == b.len() && a.iter().zip(b).all(|(x, y)| x.same(y))
            },
            (Empty, Empty) => true,
            (Opaque(a), Opaque(b)) => a == b,
            (Malformed(a), Malformed(b)) => a == b,
            _ => false,
        }
    }

    /// Like `same`, but an `Opaque(w)` leaf of `self` (the expectation) matches any constant or a
    /// read of the variable `w` in `got`.
    pub fn matches_tree(&self, got: &Ast) -> bool {
        use Ast::*;
        match (self, got) {
            (Opaque(_), Lit(_)) => true,
            (Opaque(w), Var(v)) => w == v,
            (Call(a, x), Call(b, y)) => a == b && x.matches_tree(y),
            (Neg(a), Neg(b)) | (Not(a), Not(b)) | (Paren(a), Paren(b)) => a.matches_tree(b),
            (Bin(o1, a1, b1), Bin(o2, a2, b2)) => o1 == o2 && a1.matches_tree(a2) && b1.matches_tree(b2),
            (Assign(o1, n1, e1), Assign(o2, n2, e2)) => o1 == o2 && n1 == n2 && e1.matches_tree(e2),
            (Tuple(a), Tuple(b)) | (Chain(a), Chain(b)) => {
                a.len() == b.len() && a.iter().zip(b).all(|(x, y)| x.matches_tree(y))
            },
            (a, b) => a.same(b),
        }
    }

    pub fn has_opaque(&self) -> bool {
        use Ast::*;
        match self {
            Opaque(_) => true,
            Lit(_) | Var(_) | Empty | Malformed(_) => false,
            Call(_, a) | Neg(a) | Not(a) | Paren(a) | Assign(_, _, a) => a.has_opaque(),
            Bin(_, a, b) => a.has_opaque() || b.has_opaque(),
            Tuple(v) | Chain(v) => v.iter().any(|a| a.has_opaque()),
        }
    }

    /// Remove `Paren` wrappers ("parenthesis wrapper nodes ignored").
    pub fn strip_parens(&self) -> Ast {
        use Ast::*;
        match self {
            Paren(a) => a.strip_parens(),
            Lit(_) | Var(_) | Empty | Opaque(_) | Malformed(_) => self.clone(),
            Call(n, a) => Call(n.clone(), Box::new(a.strip_parens())),
            Neg(a) => Neg(Box::new(a.strip_parens())),
            Not(a) => Not(Box::new(a.strip_parens())),
            Bin(o, a, b) => Bin(*o, Box::new(a.strip_parens()), Box::new(b.strip_parens())),
            Assign(o, n, e) => Assign(*o, n.clone(), Box::new(e.strip_parens())),
            Tuple(v) => Tuple(v.iter().map(|a| a.strip_parens()).collect()),
            Chain(v) => Chain(v.iter().map(|a| a.strip_parens()).collect()),
        }
    }

    /// S-expression, for samples and replay files.
    pub fn sexp(&self) -> String {
        use Ast::*;
        match self {
            Lit(v) => v.canon(),
            Var(n) => format!("v:{}", n),
            Call(n, a) => format!("(call {} {})", n, a.sexp()),
            Neg(a) => format!("(neg {})", a.sexp()),
            Not(a) => format!("(not {})", a.sexp()),
            Bin(o, a, b) => format!("({} {} {})", o.sym(), a.sexp(), b.sexp()),
            Assign(o, n, e) => format!("({} {} {})", o.tok().text(), n, e.sexp()),
            Tuple(v) => format!("(tuple {})", v.iter().map(|a| a.sexp()).collect::<Vec<_>>().join(" ")),
            Chain(v) => format!("(chain {})", v.iter().map(|a| a.sexp()).collect::<Vec<_>>().join(" ")),
            Empty => "()".into(),
            Opaque(w) => format!("opaque:{}", w),
            Paren(a) => format!("(paren {})", a.sexp()),
            Malformed(m) => format!("(malformed {})", m),
        }
    }

    pub fn node_count(&self) -> usize {
        use Ast::*;
        match self {
            Lit(_) | Var(_) | Empty | Opaque(_) | Malformed(_) => 1,
            Call(_, a) | Neg(a) | Not(a) | Paren(a) | Assign(_, _, a) => 1 + a.node_count(),
            Bin(_, a, b) => 1 + a.node_count() + b.node_count(),
            Tuple(v) | Chain(v) => 1 + v.iter().map(|a| a.node_count()).sum::<usize>(),
        }
    }

    pub fn depth(&self) -> usize {
        use Ast::*;
        match self {
            Lit(_) | Var(_) | Empty | Opaque(_) | Malformed(_) => 1,
            Call(_, a) | Neg(a) | Not(a) | Paren(a) | Assign(_, _, a) => 1 + a.depth(),
            Bin(_, a, b) => 1 + a.depth().max(b.depth()),
            Tuple(v) | Chain(v) => 1 + v.iter().map(|a| a.depth()).max().unwrap_or(0),
        }
    }

    pub fn has_assignment(&self) -> bool {
        use Ast::*;
        match self {
            Assign(..) => true,
            Lit(_) | Var(_) | Empty | Opaque(_) | Malformed(_) => false,
            Call(_, a) | Neg(a) | Not(a) | Paren(a) => a.has_assignment(),
            Bin(_, a, b) => a.has_assignment() || b.has_assignment(),
            Tuple(v) | Chain(v) => v.iter().any(|a| a.has_assignment()),
        }
    }

    pub fn has_malformed(&self) -> bool {
        use Ast::*;
        match self {
            Malformed(_) => true,
            Lit(_) | Var(_) | Empty | Opaque(_) => false,
            Call(_, a) | Neg(a) | Not(a) | Paren(a) | Assign(_, _, a) => a.has_malformed(),
            Bin(_, a, b) => a.has_malformed() || b.has_malformed(),
            Tuple(v) | Chain(v) => v.iter().any(|a| a.has_malformed()),
        }
    }

    /// Occurrence list in source order: (name, class) with class 'w' write, 'c' call, 'r' read.
    pub fn occurrences(&self, out: &mut Vec<(String, char)>) {
        use Ast::*;
        match self {
            Lit(_) | Empty | Opaque(_) | Malformed(_) => {},
            Var(n) => out.push((n.clone(), 'r')),
            Call(n, a) => {
                out.push((n.clone(), 'c'));
                a.occurrences(out);
            },
            Neg(a) | Not(a) | Paren(a) => a.occurrences(out),
            Bin(_, a, b) => {
                a.occurrences(out);
                b.occurrences(out);
            },
            Assign(_, n, e) => {
                out.push((n.clone(), 'w'));
                e.occurrences(out);
            },
            Tuple(v) | Chain(v) => v.iter().for_each(|a| a.occurrences(out)),
        }
    }
}

// ---------------------------------------------------------------------------------------------
// Rendering AST -> tokens
// ---------------------------------------------------------------------------------------------

/// Source of decisions while rendering (redundant parentheses, call forms). The minimal renderer
/// answers `false` / form 0 everywhere; random renderers are driven by generated bits.
pub trait RenderChoice {
    /// wrap this sub-expression in redundant parentheses?
    fn redundant(&mut self) -> bool;
    /// call form for a primary argument: 0 = `f x` where possible, 1 = `f(x)`
    fn call_paren(&mut self) -> bool;
}

pub struct Minimal;
impl RenderChoice for Minimal {
    fn redundant(&mut self) -> bool {
        false
    }
    fn call_paren(&mut self) -> bool {
        false
    }
}

/// Bits drawn from a pre-generated vector (so the renderer itself makes no random choice).
pub struct BitChoices<'a> {
    pub bits: &'a [bool],
    pub pos: usize,
}
impl<'a> BitChoices<'a> {
    pub fn new(bits: &'a [bool]) -> Self {
        BitChoices { bits, pos: 0 }
    }
    fn next(&mut self) -> bool {
        if self.bits.is_empty() {
            return false;
        }
        let b = self.bits[self.pos % self.bits.len()];
        self.pos += 1;
        b
    }
}
impl<'a> RenderChoice for BitChoices<'a> {
    fn redundant(&mut self) -> bool {
        self.next()
    }
    fn call_paren(&mut self) -> bool {
        self.next()
    }
}

/// Where a sub-expression sits; decides which parentheses are *required*.
#[derive(Clone, Copy, Debug, PartialEq)]
enum Pos {
    /// element of a sequence level (top level, inside parentheses): nothing is required
    Elem,
    /// left operand of a binary operator with precedence p
    Left(u32, bool), // (p, parent is Exp)
    /// right operand of a binary operator with precedence p
    Right(u32, bool),
    /// operand of a prefix operator
    Prefix,
    /// right-hand side of an assignment
    AssignRhs(bool), // parent is `=`
    /// argument of a call
    Arg,
    /// element of a tuple (comma level)
    TupleElem,
    /// member of a chain (semicolon level)
    ChainMember,
}

fn is_primary(a: &Ast) -> bool {
    matches!(a, Ast::Lit(_) | Ast::Var(_) | Ast::Opaque(_))
}

/// Does `a` at position `pos` need parentheses for the reference grammar to read it back as `a`?
fn needs_parens(a: &Ast, pos: Pos) -> bool {
    use Ast::*;
    match a {
        Paren(_) | Malformed(_) => false,
        Empty => match pos {
            // an absent element is fine at sequence level, everywhere else it must be written `()`
            Pos::Elem | Pos::TupleElem | Pos::ChainMember => false,
            _ => true,
        },
        Lit(_) | Var(_) | Opaque(_) => false,
        Call(..) => match pos {
            Pos::Arg => false, // `f g x` is f(g(x))
            _ => false,
        },
        Neg(_) | Not(_) => match pos {
            // prefix operator as *left* operand of `^` needs parentheses ((-a)^b); as left operand
            // of anything of lower precedence it does not.
            Pos::Left(p, _) => p > PREC_PREFIX,
            // as right operand of `^` the form `x ^ -y ^ z` is unclaimed (D3); `x ^ -y` alone is
            // fine, but whether another `^` follows is decided by the parent, so the renderer
            // always parenthesises a prefix operator in the right operand of `^`... unless the
            // parent tells it is safe (handled in render_bin).
            Pos::Right(p, _) => p > PREC_PREFIX,
            Pos::Arg => true,
            _ => false,
        },
        Bin(op, ..) => {
            let q = op.prec();
            match pos {
                Pos::Left(p, _) => q < p,
                Pos::Right(p, _) => q <= p,
                Pos::Prefix => q < PREC_PREFIX,
                Pos::Arg => true,
                _ => false,
            }
        },
        Assign(op, ..) => match pos {
            Pos::Left(..) | Pos::Right(..) | Pos::Prefix | Pos::Arg => true,
            // `a = b = c` is right-to-left; any other adjacent pair is unclaimed (D2) -> parens
            Pos::AssignRhs(parent_is_set) => !(parent_is_set && *op == AssignOp::Set),
            _ => false,
        },
        Tuple(_) => match pos {
            Pos::Elem | Pos::ChainMember => false,
            _ => true,
        },
        Chain(_) => match pos {
            Pos::Elem => false,
            _ => true,
        },
    }
}

pub fn render_tokens(a: &Ast, ch: &mut dyn RenderChoice) -> Vec<Tok> {
    let mut out = Vec::new();
    render(a, Pos::Elem, ch, &mut out);
    out
}

fn render(a: &Ast, pos: Pos, ch: &mut dyn RenderChoice, out: &mut Vec<Tok>) {
    // A redundant pair may be placed anywhere except around nothing (an absent element) —
    // `()` in an element position is the same Empty value, so that is allowed too.
    let required = needs_parens(a, pos);
    let redundant = !required && !matches!(a, Ast::Paren(_)) && ch.redundant();
    if required || redundant {
        out.push(Tok::LParen);
        render_inner(a, Pos::Elem, ch, out);
        out.push(Tok::RParen);
    } else {
        render_inner(a, pos, ch, out);
    }
}

fn render_inner(a: &Ast, pos: Pos, ch: &mut dyn RenderChoice, out: &mut Vec<Tok>) {
    use Ast::*;
    match a {
        Lit(v) => out.push(match v {
            RV::Int(i) => Tok::Int(*i),
            RV::Float(f) => Tok::Float(*f),
            RV::Bool(b) => Tok::Bool(*b),
            RV::Str(s) => Tok::Str(s.clone()),
            other => panic!("not a literal: {:?}", other),
        }),
        Var(n) => out.push(Tok::Ident(n.clone())),
        Opaque(w) => out.push(Tok::Opaque(w.clone())),
        Empty => {},
        Malformed(m) => panic!("cannot render malformed tree {}", m),
        Paren(inner) => {
            out.push(Tok::LParen);
            render_inner(inner, Pos::Elem, ch, out);
            out.push(Tok::RParen);
        },
        Call(n, arg) => {
            out.push(Tok::Ident(n.clone()));
            // `f x` form only for primaries and nested calls; otherwise parentheses are required.
            let bare_ok = is_primary(arg) || matches!(**arg, Call(..));
            if bare_ok && !ch.call_paren() {
                render_inner(arg, Pos::Arg, ch, out);
            } else {
                out.push(Tok::LParen);
                // inside the call parentheses more redundant parentheses may follow
                render(arg, Pos::Elem, ch, out);
                out.push(Tok::RParen);
            }
        },
        Neg(x) => {
            out.push(Tok::Minus);
            render(x, Pos::Prefix, ch, out);
        },
        Not(x) => {
            out.push(Tok::Not);
            render(x, Pos::Prefix, ch, out);
        },
        Bin(op, l, r) => {
            let p = op.prec();
            let is_exp = *op == BinOp::Exp;
            render(l, Pos::Left(p, is_exp), ch, out);
            out.push(op.tok());
            render(r, Pos::Right(p, is_exp), ch, out);
            let _ = pos;
        },
        Assign(op, n, e) => {
            out.push(Tok::Ident(n.clone()));
            out.push(op.tok());
            render(e, Pos::AssignRhs(*op == AssignOp::Set), ch, out);
        },
        Tuple(v) => {
            for (i, e) in v.iter().enumerate() {
                if i > 0 {
                    out.push(Tok::Comma);
                }
                render(e, Pos::TupleElem, ch, out);
            }
        },
        Chain(v) => {
            for (i, e) in v.iter().enumerate() {
                if i > 0 {
                    out.push(Tok::Semi);
                }
                render(e, Pos::ChainMember, ch, out);
            }
        },
    }
}
