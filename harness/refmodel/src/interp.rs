//! Reference context model and interpreter (DESIGN §3.5): strict, left to right, first error wins.

use std::collections::BTreeMap;

use crate::ast::{AssignOp, Ast};
use crate::builtins::{builtin, is_builtin, Unit};
use crate::ops;
use crate::value::{Exp, RE, RR, RV};

/// Behaviour of a harness-owned user function (fixed menu, none panics). Every call is logged
/// with its argument before the result is produced.
#[derive(Clone, Debug)]
pub enum UF {
    /// returns its argument
    Identity,
    /// returns a constant
    Const(RV),
    /// returns `(k, argument)`
    Tag(i64),
    /// fails with `CustomMessage("fail#k")`
    Fail(u32),
    /// like the README's `f`: `Int(arg + 5)` (wrapping), `ExpectedInt{actual}` otherwise
    IntPlus5,
    /// first number found in the argument (depth-first), `Int(0)` if none
    FirstNumber,
    /// fails with `FunctionIdentifierNotFound(name)` — e.g. a function that evaluates a nested
    /// expression in a restricted context and propagates its error
    NotFound(String),
    /// fails with a typed library error a builtin of the same name could also raise:
    /// 0 = wrong argument amount, 1 = fixed-length tuple expected, 2 = division error,
    /// 3 = VariableIdentifierNotFound("raised")
    Raise(u8),
}

impl PartialEq for UF {
    fn eq(&self, o: &UF) -> bool {
        match (self, o) {
            (UF::Identity, UF::Identity) | (UF::IntPlus5, UF::IntPlus5) | (UF::FirstNumber, UF::FirstNumber) => true,
            (UF::Const(a), UF::Const(b)) => a.same(b),
            (UF::Tag(a), UF::Tag(b)) => a == b,
            (UF::Fail(a), UF::Fail(b)) => a == b,
            (UF::NotFound(a), UF::NotFound(b)) => a == b,
            (UF::Raise(a), UF::Raise(b)) => a == b,
            _ => false,
        }
    }
}

impl UF {
    pub fn apply(&self, arg: &RV) -> RR {
        match self {
            UF::Identity => Ok(arg.clone()),
            UF::Const(v) => Ok(v.clone()),
            UF::Tag(k) => Ok(RV::Tuple(vec![RV::Int(*k), arg.clone()])),
            UF::Fail(k) => Err(RE::Custom(format!("fail#{}", k))),
            UF::NotFound(n) => Err(RE::FnNotFound(n.clone())),
            UF::Raise(k) => Err(match k {
                0 => RE::Arity,
                1 => RE::Type,
                2 => RE::Arith,
                _ => RE::VarNotFound("raised".into()),
            }),
            UF::IntPlus5 => match arg {
                RV::Int(i) => Ok(RV::Int(i.wrapping_add(5))),
                other => Err(RE::Expected(Exp::Int, other.clone())),
            },
            UF::FirstNumber => {
                fn first(v: &RV) -> Option<RV> {
                    match v {
                        RV::Int(_) | RV::Float(_) => Some(v.clone()),
                        RV::Tuple(t) => t.iter().find_map(first),
                        _ => None,
                    }
                }
                Ok(first(arg).unwrap_or(RV::Int(0)))
            },
        }
    }
    pub fn describe(&self) -> String {
        match self {
            UF::Const(v) => format!("Const({})", v.canon()),
            other => format!("{:?}", other),
        }
    }
}

#[derive(Clone, Copy, Debug, PartialEq, Eq, Hash)]
pub enum Kind {
    HashMap,
    Empty,
    EmptyWithBuiltins,
    /// a harness type implementing ContextWithMutableVariables with the default `set_value`
    StorageLess,
}

#[derive(Clone, Debug)]
pub struct Ctx {
    pub kind: Kind,
    pub vars: BTreeMap<String, RV>,
    pub funcs: BTreeMap<String, UF>,
    pub builtins_disabled: bool,
}

impl Ctx {
    pub fn new(kind: Kind) -> Ctx {
        Ctx {
            kind,
            vars: BTreeMap::new(),
            funcs: BTreeMap::new(),
            builtins_disabled: matches!(kind, Kind::Empty),
        }
    }
    pub fn hashmap() -> Ctx {
        Ctx::new(Kind::HashMap)
    }

    /// HashMapContext::set_value (type safe); StorageLess: the default `ContextNotMutable`.
    pub fn set(&mut self, name: &str, v: RV) -> Result<(), RE> {
        match self.kind {
            Kind::HashMap => {
                if let Some(cur) = self.vars.get(name) {
                    if cur.tag() != v.tag() {
                        return Err(RE::Expected(Exp::of_tag(cur.tag()), v));
                    }
                }
                self.vars.insert(name.to_string(), v);
                Ok(())
            },
            _ => Err(RE::NotMutable),
        }
    }
    pub fn get(&self, name: &str) -> Option<&RV> {
        self.vars.get(name)
    }
    pub fn set_function(&mut self, name: &str, f: UF) {
        self.funcs.insert(name.to_string(), f);
    }
    pub fn clear_variables(&mut self) {
        self.vars.clear();
    }
    pub fn clear_functions(&mut self) {
        self.funcs.clear();
    }
    pub fn clear(&mut self) {
        self.vars.clear();
        self.funcs.clear();
    }
    pub fn set_builtins_disabled(&mut self, disabled: bool) -> Result<(), RE> {
        match self.kind {
            Kind::HashMap | Kind::StorageLess => {
                self.builtins_disabled = disabled;
                Ok(())
            },
            Kind::Empty => {
                if disabled {
                    Ok(())
                } else {
                    Err(RE::CannotEnable)
                }
            },
            Kind::EmptyWithBuiltins => {
                if disabled {
                    Err(RE::CannotDisable)
                } else {
                    Ok(())
                }
            },
        }
    }
    pub fn same_state(&self, o: &Ctx) -> bool {
        self.kind == o.kind
            && self.builtins_disabled == o.builtins_disabled
            && self.vars.len() == o.vars.len()
            && self.vars.iter().zip(o.vars.iter()).all(|((k1, v1), (k2, v2))| k1 == k2 && v1.same(v2))
            && self.funcs == o.funcs
    }
    pub fn describe(&self) -> String {
        format!(
            "{:?}{{builtins_disabled:{}, vars:{{{}}}, funcs:{{{}}}}}",
            self.kind,
            self.builtins_disabled,
            self.vars.iter().map(|(k, v)| format!("{}={}", k, v.canon())).collect::<Vec<_>>().join(", "),
            self.funcs.iter().map(|(k, f)| format!("{}={}", k, f.describe())).collect::<Vec<_>>().join(", ")
        )
    }
}

/// One logged user-function call.
#[derive(Clone, Debug)]
pub struct CallRec {
    pub name: String,
    pub arg: RV,
}

pub fn log_same(a: &[CallRec], b: &[CallRec]) -> bool {
    a.len() == b.len() && a.iter().zip(b).all(|(x, y)| x.name == y.name && x.arg.same(&y.arg))
}

pub fn log_describe(l: &[CallRec]) -> String {
    l.iter().map(|c| format!("{}({})", c.name, c.arg.canon())).collect::<Vec<_>>().join("; ")
}

pub struct Interp<'a> {
    pub ctx: &'a mut Ctx,
    pub mutable: bool,
    pub unit: Unit,
    pub log: Vec<CallRec>,
    /// number of assignment nodes *reached* (children evaluated successfully)
    pub assignments_reached: usize,
    /// operands of the integer operation that raised the last arithmetic error
    pub last_arith: Option<Vec<RV>>,
    /// D15: `x op= e` with x unbound when the node is entered and an `e` that fails or has effects.
    /// C08 says operands are evaluated before the operator is applied (e first, then x is missed);
    /// C04 reads the form as `x = x op e` (x is missed first). Only C08's check asserts its order
    /// (`strict_opassign`); for every other property the region is unclaimed.
    pub strict_opassign: bool,
}

impl<'a> Interp<'a> {
    pub fn new(ctx: &'a mut Ctx, mutable: bool, unit: Unit) -> Self {
        Interp { ctx, mutable, unit, log: Vec::new(), assignments_reached: 0, last_arith: None, strict_opassign: false }
    }

    pub fn call(&mut self, name: &str, arg: &RV) -> RR {
        if let Some(f) = self.ctx.funcs.get(name).cloned() {
            self.log.push(CallRec { name: name.to_string(), arg: arg.clone() });
            return f.apply(arg);
        }
        if !self.ctx.builtins_disabled && is_builtin(name) {
            return builtin(name, arg, self.unit).unwrap().to_rr();
        }
        Err(RE::FnNotFound(name.to_string()))
    }

    pub fn eval(&mut self, a: &Ast) -> RR {
        use Ast::*;
        match a {
            Lit(v) => Ok(v.clone()),
            Empty => Ok(RV::Empty),
            Paren(x) => self.eval(x),
            Malformed(_) => Err(RE::Unclaimed("malformed tree")),
            Opaque(_) => Err(RE::Unclaimed("D6 word")),
            Var(n) => match self.ctx.get(n) {
                Some(v) => Ok(v.clone()),
                None => Err(RE::VarNotFound(n.clone())),
            },
            Call(n, arg) => {
                let v = self.eval(arg)?;
                self.call(n, &v)
            },
            Neg(x) => {
                let v = self.eval(x)?;
                let r = ops::neg(&v);
                if let Err(RE::Arith) = &r {
                    self.last_arith = Some(vec![v.clone()]);
                }
                r
            },
            Not(x) => {
                let v = self.eval(x)?;
                ops::not(&v)
            },
            Bin(op, l, r) => {
                let a = self.eval(l)?;
                let b = self.eval(r)?;
                match ops::binop(*op, &a, &b) {
                    // D8 inside a larger program: the continuation is ambiguous
                    Err(RE::ArithOr(_)) => Err(RE::Unclaimed("D8 inside a program")),
                    Err(RE::Arith) => {
                        self.last_arith = Some(vec![a.clone(), b.clone()]);
                        Err(RE::Arith)
                    },
                    other => other,
                }
            },
            Assign(op, name, e) => {
                let d15_candidate = !self.strict_opassign && op.binop().is_some() && self.ctx.get(name).is_none();
                let effects_before = (self.assignments_reached, self.log.len());
                let v = self.eval(e);
                if d15_candidate && (v.is_err() || effects_before != (self.assignments_reached, self.log.len())) {
                    return Err(RE::Unclaimed("D15: compound assignment to an unbound target whose right-hand side fails or has effects"));
                }
                let v = v?;
                self.assignments_reached += 1;
                if !self.mutable {
                    return Err(RE::NotMutable);
                }
                match op.binop() {
                    None => {
                        self.ctx.set(name, v)?;
                    },
                    Some(bop) => {
                        let cur = match self.ctx.get(name) {
                            Some(c) => c.clone(),
                            None => return Err(RE::VarNotFound(name.clone())),
                        };
                        let r = match ops::binop(bop, &cur, &v) {
                            Err(RE::ArithOr(_)) => return Err(RE::Unclaimed("D8 inside a program")),
                            Err(RE::Arith) => {
                                self.last_arith = Some(vec![cur.clone(), v.clone()]);
                                return Err(RE::Arith);
                            },
                            other => other?,
                        };
                        self.ctx.set(name, r)?;
                    },
                }
                let _ = AssignOp::Set;
                Ok(RV::Empty)
            },
            Tuple(v) => {
                let mut out = Vec::with_capacity(v.len());
                for e in v {
                    out.push(self.eval(e)?);
                }
                Ok(RV::Tuple(out))
            },
            Chain(v) => {
                let mut last = RV::Empty;
                for e in v {
                    last = self.eval(e)?;
                }
                Ok(last)
            },
        }
    }
}

/// Convenience: evaluate `a` in `ctx` (mutated in place when `mutable`).
pub fn run(a: &Ast, ctx: &mut Ctx, mutable: bool, unit: Unit) -> (RR, Vec<CallRec>, usize) {
    let mut it = Interp::new(ctx, mutable, unit);
    let r = it.eval(a);
    (r, it.log, it.assignments_reached)
}

pub struct RunOut {
    pub result: RR,
    pub log: Vec<CallRec>,
    pub assignments_reached: usize,
    pub arith_operands: Option<Vec<RV>>,
}

pub fn run_full(a: &Ast, ctx: &mut Ctx, mutable: bool, unit: Unit) -> RunOut {
    run_full_opts(a, ctx, mutable, unit, false)
}

/// `strict_opassign`: assert C08's order in the D15 region (see `Interp::strict_opassign`).
pub fn run_full_opts(a: &Ast, ctx: &mut Ctx, mutable: bool, unit: Unit, strict_opassign: bool) -> RunOut {
    let mut it = Interp::new(ctx, mutable, unit);
    it.strict_opassign = strict_opassign;
    let result = it.eval(a);
    RunOut { result, log: it.log, assignments_reached: it.assignments_reached, arith_operands: it.last_arith }
}
