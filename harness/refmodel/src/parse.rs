//! Reference parser and three-way classification of token sequences (DESIGN §3.3).
//!
//! * `ill_formed` is a purely local recogniser (I1–I4): no tree is built.
//! * `parse` is precedence climbing over the documented table.
//! * `classify` combines both and applies the unclaimed rules D1–D4.

use crate::ast::{AssignOp, Ast, BinOp, PREC_ASSIGN, PREC_PREFIX};
use crate::tok::Tok;

#[derive(Clone, Copy, Debug, PartialEq, Eq, Hash, PartialOrd, Ord)]
pub enum Ill {
    /// parentheses unbalanced
    I1,
    /// prefix operator without operand
    I2,
    /// binary operator without left operand
    I3L,
    /// binary operator without right operand
    I3R,
    /// literal or `)` directly followed by a left-sided token
    I4,
}

#[derive(Clone, Debug)]
pub enum Class {
    WellFormed(Ast),
    IllFormed(Vec<Ill>),
    Unclaimed(&'static str),
}

/// Is the `-` at position i a prefix operator? (previous token not right-sided)
fn minus_is_prefix(toks: &[Tok], i: usize) -> bool {
    i == 0 || !toks[i - 1].right_sided()
}

/// Are the parentheses balanced? (no prefix with more `)` than `(`, depth 0 at the end)
pub fn balanced(toks: &[Tok]) -> bool {
    let mut depth: i64 = 0;
    for t in toks {
        match t {
            Tok::LParen => depth += 1,
            Tok::RParen => {
                depth -= 1;
                if depth < 0 {
                    return false;
                }
            },
            _ => {},
        }
    }
    depth == 0
}

/// The local recogniser: the set of reasons (sorted, deduplicated) for which the sequence is
/// ill-formed in the sense of C13; empty if none applies.
pub fn ill_formed(toks: &[Tok]) -> Vec<Ill> {
    let mut r = Vec::new();
    if !balanced(toks) {
        r.push(Ill::I1);
    }
    for i in 0..toks.len() {
        let t = &toks[i];
        let prev = if i > 0 { Some(&toks[i - 1]) } else { None };
        let next = toks.get(i + 1);
        let prev_right = prev.map_or(false, |p| p.right_sided());
        let next_operand = next.map_or(false, |n| n.operand_start());
        match t {
            Tok::Not => {
                if !next_operand {
                    r.push(Ill::I2);
                }
            },
            Tok::Minus => {
                if minus_is_prefix(toks, i) {
                    if !next_operand {
                        r.push(Ill::I2);
                    }
                } else if !next_operand {
                    r.push(Ill::I3R);
                }
            },
            t if t.is_pure_binary() || t.is_assignment() => {
                if !prev_right {
                    r.push(Ill::I3L);
                }
                if !next_operand {
                    r.push(Ill::I3R);
                }
            },
            _ => {},
        }
        if (t.is_literal() || matches!(t, Tok::RParen)) && next.map_or(false, |n| n.left_sided()) {
            r.push(Ill::I4);
        }
    }
    r.sort();
    r.dedup();
    r
}

fn prefix_over_exp(a: &Ast) -> bool {
    match a {
        Ast::Neg(x) | Ast::Not(x) => matches!(**x, Ast::Bin(BinOp::Exp, ..)) || prefix_over_exp(x),
        _ => false,
    }
}

struct P<'a> {
    t: &'a [Tok],
    i: usize,
}

#[derive(Debug)]
enum Stop {
    Unclaimed(&'static str),
    Stuck,
}

type PR<T> = Result<T, Stop>;

impl<'a> P<'a> {
    fn peek(&self) -> Option<&'a Tok> {
        self.t.get(self.i)
    }
    fn prev(&self) -> Option<&'a Tok> {
        if self.i > 0 {
            self.t.get(self.i - 1)
        } else {
            None
        }
    }

    /// chain := tuple (';' tuple)*
    fn chain(&mut self) -> PR<Ast> {
        let first = self.tuple()?;
        if !matches!(self.peek(), Some(Tok::Semi)) {
            return Ok(first);
        }
        let mut members = vec![first];
        while matches!(self.peek(), Some(Tok::Semi)) {
            self.i += 1;
            members.push(self.tuple()?);
        }
        Ok(Ast::Chain(members))
    }

    /// tuple := elem (',' elem)*
    fn tuple(&mut self) -> PR<Ast> {
        let first = self.elem()?;
        if !matches!(self.peek(), Some(Tok::Comma)) {
            return Ok(first);
        }
        let mut elems = vec![first];
        while matches!(self.peek(), Some(Tok::Comma)) {
            self.i += 1;
            elems.push(self.elem()?);
        }
        Ok(Ast::Tuple(elems))
    }

    /// elem := ε | expr(50)
    fn elem(&mut self) -> PR<Ast> {
        match self.peek() {
            None | Some(Tok::Comma) | Some(Tok::Semi) | Some(Tok::RParen) => Ok(Ast::Empty),
            _ => self.expr(PREC_ASSIGN),
        }
    }

    fn expr(&mut self, min: u32) -> PR<Ast> {
        let mut lhs = self.unary()?;
        loop {
            let t = match self.peek() {
                Some(t) => t,
                None => break,
            };
            if let Some(aop) = AssignOp::from_tok(t) {
                if PREC_ASSIGN < min {
                    break;
                }
                // D1: the left operand must be a bare, unparenthesised identifier
                let name = match &lhs {
                    Ast::Var(n) => n.clone(),
                    _ => return Err(Stop::Unclaimed("D1")),
                };
                self.i += 1;
                let rhs = if aop == AssignOp::Set { self.expr(PREC_ASSIGN)? } else { self.expr(PREC_ASSIGN + 1)? };
                // D2: adjacent assignment operators other than `=` `=`
                if let Ast::Assign(inner, ..) = &rhs {
                    if !(aop == AssignOp::Set && *inner == AssignOp::Set) {
                        return Err(Stop::Unclaimed("D2"));
                    }
                }
                lhs = Ast::Assign(aop, name, Box::new(rhs));
                continue;
            }
            // D4: `!` directly after an operand
            if matches!(t, Tok::Not) {
                return Err(Stop::Unclaimed("D4"));
            }
            let bop = match BinOp::from_tok(t) {
                Some(b) => b,
                None => break,
            };
            let p = bop.prec();
            if p < min {
                break;
            }
            self.i += 1;
            let rhs = self.expr(p + 1)?;
            // D3: `x ^ -y ^ z` — a prefix operator as right operand of `^` whose own operand is
            // followed by `^` (the operand of a prefix operator is parsed with precedence 110, so
            // it shows up here as a prefix node over an unparenthesised `^` node)
            if bop == BinOp::Exp && prefix_over_exp(&rhs) {
                return Err(Stop::Unclaimed("D3"));
            }
            lhs = Ast::Bin(bop, Box::new(lhs), Box::new(rhs));
        }
        Ok(lhs)
    }

    /// unary := ('-'|'!') expr(110) | primary
    fn unary(&mut self) -> PR<Ast> {
        match self.peek() {
            Some(Tok::Minus) => {
                // in operand position a `-` is always the prefix operator; check against the
                // documented rule for consistency
                debug_assert!(self.prev().map_or(true, |p| !p.right_sided()));
                self.i += 1;
                let x = self.expr(PREC_PREFIX)?;
                Ok(Ast::Neg(Box::new(x)))
            },
            Some(Tok::Not) => {
                self.i += 1;
                let x = self.expr(PREC_PREFIX)?;
                Ok(Ast::Not(Box::new(x)))
            },
            _ => self.primary(),
        }
    }

    /// primary := literal | '(' chain ')' | IDENT primary | IDENT
    fn primary(&mut self) -> PR<Ast> {
        match self.peek() {
            Some(t) if t.is_literal() => {
                self.i += 1;
                Ok(Ast::Lit(t.literal_value().unwrap()))
            },
            Some(Tok::Opaque(w)) => {
                self.i += 1;
                // an identifier here would start a call, a literal would be a juxtaposition
                if self.peek().map_or(false, |t| t.left_sided()) {
                    return Err(Stop::Unclaimed("D6"));
                }
                Ok(Ast::Opaque(w.clone()))
            },
            Some(Tok::LParen) => {
                self.i += 1;
                let inner = self.chain()?;
                match self.peek() {
                    Some(Tok::RParen) => {
                        self.i += 1;
                        Ok(Ast::Paren(Box::new(inner)))
                    },
                    _ => Err(Stop::Stuck),
                }
            },
            Some(Tok::Ident(n)) => {
                self.i += 1;
                if self.peek().map_or(false, |t| t.left_sided()) {
                    let arg = self.primary()?;
                    Ok(Ast::Call(n.clone(), Box::new(arg)))
                } else {
                    Ok(Ast::Var(n.clone()))
                }
            },
            _ => Err(Stop::Stuck),
        }
    }
}

/// Classify a token sequence.
pub fn classify(toks: &[Tok]) -> Class {
    let ill = ill_formed(toks);
    if !ill.is_empty() {
        return Class::IllFormed(ill);
    }
    let mut p = P { t: toks, i: 0 };
    match p.chain() {
        Ok(ast) => {
            if p.i == toks.len() {
                Class::WellFormed(ast)
            } else if matches!(toks[p.i], Tok::Not) {
                Class::Unclaimed("D4")
            } else {
                Class::Unclaimed("stuck")
            }
        },
        Err(Stop::Unclaimed(w)) => Class::Unclaimed(w),
        Err(Stop::Stuck) => Class::Unclaimed("stuck"),
    }
}

/// Parse only (for internal consistency checks of renderers).
pub fn parse(toks: &[Tok]) -> Option<Ast> {
    match classify(toks) {
        Class::WellFormed(a) => Some(a),
        _ => None,
    }
}
