//! Tokens and the reference tokenizer (DESIGN §3.2). Independent of evalexpr.

use crate::value::RV;

#[derive(Clone, Debug)]
pub enum Tok {
    Plus,
    Minus,
    Star,
    Slash,
    Percent,
    Hat,
    Eq,
    Neq,
    Gt,
    Lt,
    Geq,
    Leq,
    And,
    Or,
    Not,
    LParen,
    RParen,
    Assign,
    PlusAssign,
    MinusAssign,
    StarAssign,
    SlashAssign,
    PercentAssign,
    HatAssign,
    AndAssign,
    OrAssign,
    Comma,
    Semi,
    Ident(String),
    Float(f64),
    Int(i64),
    Bool(bool),
    Str(String),
    /// a D6 word (`inf` / `nan` in any case, an integer literal outside the signed 64-bit range):
    /// the documentation does not say whether it is a number or an identifier, but either way it
    /// is one operand token
    Opaque(String),
}

impl PartialEq for Tok {
    fn eq(&self, o: &Tok) -> bool {
        use Tok::*;
        match (self, o) {
            (Ident(a), Ident(b)) => a == b,
            (Float(a), Float(b)) => a.to_bits() == b.to_bits() || (a.is_nan() && b.is_nan()),
            (Int(a), Int(b)) => a == b,
            (Bool(a), Bool(b)) => a == b,
            (Str(a), Str(b)) => a == b,
            (Opaque(a), Opaque(b)) => a == b,
            (a, b) => {
                std::mem::discriminant(a) == std::mem::discriminant(b)
                    && !matches!(a, Ident(_) | Float(_) | Int(_) | Bool(_) | Str(_) | Opaque(_))
            },
        }
    }
}

pub const WHITESPACE: [char; 25] = [
    '\u{0009}', '\u{000A}', '\u{000B}', '\u{000C}', '\u{000D}', '\u{0020}', '\u{0085}', '\u{00A0}', '\u{1680}',
    '\u{2000}', '\u{2001}', '\u{2002}', '\u{2003}', '\u{2004}', '\u{2005}', '\u{2006}', '\u{2007}', '\u{2008}',
    '\u{2009}', '\u{200A}', '\u{2028}', '\u{2029}', '\u{202F}', '\u{205F}', '\u{3000}',
];

pub const OPERATOR_CHARS: [char; 16] =
    ['+', '-', '*', '/', '%', '^', '(', ')', ',', ';', '=', '!', '<', '>', '&', '|'];

pub fn is_ws(c: char) -> bool {
    WHITESPACE.contains(&c)
}
pub fn is_op_char(c: char) -> bool {
    OPERATOR_CHARS.contains(&c)
}
pub fn is_word_char(c: char) -> bool {
    !is_ws(c) && !is_op_char(c) && c != '"'
}

impl Tok {
    pub fn is_literal(&self) -> bool {
        matches!(self, Tok::Float(_) | Tok::Int(_) | Tok::Bool(_) | Tok::Str(_))
    }
    pub fn is_ident(&self) -> bool {
        matches!(self, Tok::Ident(_))
    }
    pub fn is_opaque(&self) -> bool {
        matches!(self, Tok::Opaque(_))
    }
    /// literal, identifier, `)`
    pub fn right_sided(&self) -> bool {
        self.is_literal() || self.is_ident() || self.is_opaque() || matches!(self, Tok::RParen)
    }
    /// literal, identifier, `(`
    pub fn left_sided(&self) -> bool {
        self.is_literal() || self.is_ident() || self.is_opaque() || matches!(self, Tok::LParen)
    }
    /// left-sided, or `-`, or `!`
    pub fn operand_start(&self) -> bool {
        self.left_sided() || matches!(self, Tok::Minus | Tok::Not)
    }
    pub fn is_assignment(&self) -> bool {
        use Tok::*;
        matches!(
            self,
            Assign | PlusAssign | MinusAssign | StarAssign | SlashAssign | PercentAssign | HatAssign | AndAssign | OrAssign
        )
    }
    /// The 13 always-binary operators (everything binary except `-`, `,`, `;` and assignments).
    pub fn is_pure_binary(&self) -> bool {
        use Tok::*;
        matches!(self, Plus | Star | Slash | Percent | Hat | Eq | Neq | Gt | Lt | Geq | Leq | And | Or)
    }
    /// Canonical source text of the token. Numbers must be non-negative and finite.
    pub fn text(&self) -> String {
        use Tok::*;
        match self {
            Plus => "+".into(),
            Minus => "-".into(),
            Star => "*".into(),
            Slash => "/".into(),
            Percent => "%".into(),
            Hat => "^".into(),
            Eq => "==".into(),
            Neq => "!=".into(),
            Gt => ">".into(),
            Lt => "<".into(),
            Geq => ">=".into(),
            Leq => "<=".into(),
            And => "&&".into(),
            Or => "||".into(),
            Not => "!".into(),
            LParen => "(".into(),
            RParen => ")".into(),
            Assign => "=".into(),
            PlusAssign => "+=".into(),
            MinusAssign => "-=".into(),
            StarAssign => "*=".into(),
            SlashAssign => "/=".into(),
            PercentAssign => "%=".into(),
            HatAssign => "^=".into(),
            AndAssign => "&&=".into(),
            OrAssign => "||=".into(),
            Comma => ",".into(),
            Semi => ";".into(),
            Ident(s) => s.clone(),
            Opaque(s) => s.clone(),
            Float(f) => {
                assert!(f.is_finite() && f.is_sign_positive(), "float literal must be finite and non-negative");
                format!("{:?}", f)
            },
            Int(i) => {
                assert!(*i >= 0, "int literal must be non-negative");
                i.to_string()
            },
            Bool(b) => b.to_string(),
            Str(s) => quote(s),
        }
    }
    pub fn literal_value(&self) -> Option<RV> {
        match self {
            Tok::Float(f) => Some(RV::Float(*f)),
            Tok::Int(i) => Some(RV::Int(*i)),
            Tok::Bool(b) => Some(RV::Bool(*b)),
            Tok::Str(s) => Some(RV::Str(s.clone())),
            _ => None,
        }
    }
}

/// `"` + t with `\` -> `\\`, `"` -> `\"` + `"`
pub fn quote(t: &str) -> String {
    let mut s = String::with_capacity(t.len() + 2);
    s.push('"');
    for c in t.chars() {
        if c == '\\' || c == '"' {
            s.push('\\');
        }
        s.push(c);
    }
    s.push('"');
    s
}

#[derive(Clone, Debug, PartialEq)]
pub enum LexErr {
    UnterminatedString,
    BadEscape(String),
    UnterminatedComment,
    /// a lone `&` or `|`
    LonePartial(char),
}

impl LexErr {
    /// The evalexpr error variant name this corresponds to.
    pub fn variant(&self) -> &'static str {
        match self {
            LexErr::UnterminatedString => "UnmatchedDoubleQuote",
            LexErr::BadEscape(_) => "IllegalEscapeSequence",
            LexErr::UnterminatedComment => "CustomMessage",
            LexErr::LonePartial(_) => "UnmatchedPartialToken",
        }
    }
}

#[derive(Clone, Debug)]
pub struct LexOut {
    pub toks: Vec<Tok>,
    /// D6: the text contains an unclaimed word (inf / infinity / nan in any case, or an integer
    /// literal outside the signed 64-bit range). The token produced for it is `Tok::Opaque`.
    pub d6: bool,
}

fn all_digits(s: &str) -> bool {
    !s.is_empty() && s.bytes().all(|b| b.is_ascii_digit())
}

/// `(D+ | D+ . D* | D* . D+)`, returns true if `s` is such a mantissa.
fn is_mantissa(s: &str) -> bool {
    let mut parts = s.splitn(2, '.');
    let a = parts.next().unwrap_or("");
    match parts.next() {
        None => all_digits(a),
        Some(b) => {
            (a.is_empty() || all_digits(a)) && (b.is_empty() || all_digits(b)) && !(a.is_empty() && b.is_empty())
        },
    }
}

/// Float grammar without sign: mantissa ([eE] D+)?
fn is_unsigned_float_word(s: &str) -> bool {
    if let Some(pos) = s.find(|c| c == 'e' || c == 'E') {
        is_mantissa(&s[..pos]) && all_digits(&s[pos + 1..])
    } else {
        is_mantissa(s)
    }
}

/// `M e` / `M E`: a mantissa followed by a bare exponent marker.
fn is_mantissa_e(s: &str) -> bool {
    (s.ends_with('e') || s.ends_with('E')) && is_mantissa(&s[..s.len() - 1])
}

fn is_d6_word(s: &str) -> bool {
    let l = s.to_ascii_lowercase();
    l == "inf" || l == "infinity" || l == "nan"
}

#[derive(Clone, Debug, PartialEq)]
pub enum WordClass {
    Int(i64),
    Float(f64),
    Bool(bool),
    Ident,
    /// D6
    Unclaimed,
}

/// Classify a maximal run of word characters on its own (no exponent join).
pub fn classify_word(w: &str) -> WordClass {
    if all_digits(w) {
        return match w.parse::<i64>() {
            Ok(i) => WordClass::Int(i),
            Err(_) => WordClass::Unclaimed, // outside the signed 64-bit range
        };
    }
    if let Some(h) = w.strip_prefix("0x") {
        if !h.is_empty() && h.bytes().all(|b| b.is_ascii_hexdigit()) {
            return match i64::from_str_radix(h, 16) {
                Ok(i) => WordClass::Int(i),
                Err(_) => WordClass::Unclaimed,
            };
        }
    }
    if is_unsigned_float_word(w) {
        let f: f64 = w.parse().expect("reference float grammar must be accepted by std");
        return WordClass::Float(f);
    }
    if is_d6_word(w) {
        return WordClass::Unclaimed;
    }
    if w == "true" {
        return WordClass::Bool(true);
    }
    if w == "false" {
        return WordClass::Bool(false);
    }
    WordClass::Ident
}

/// The reference tokenizer.
pub fn lex(src: &str) -> Result<LexOut, LexErr> {
    let cs: Vec<char> = src.chars().collect();
    let mut i = 0;
    let mut toks = Vec::new();
    let mut d6 = false;
    let n = cs.len();
    while i < n {
        let c = cs[i];
        if c == '"' {
            i += 1;
            let mut s = String::new();
            loop {
                if i >= n {
                    return Err(LexErr::UnterminatedString);
                }
                let c = cs[i];
                i += 1;
                match c {
                    '"' => break,
                    '\\' => {
                        if i >= n {
                            return Err(LexErr::BadEscape("\\".into()));
                        }
                        let e = cs[i];
                        i += 1;
                        match e {
                            '"' => s.push('"'),
                            '\\' => s.push('\\'),
                            other => return Err(LexErr::BadEscape(format!("\\{}", other))),
                        }
                    },
                    c => s.push(c),
                }
            }
            toks.push(Tok::Str(s));
            continue;
        }
        if is_ws(c) {
            i += 1;
            continue;
        }
        if c == '/' && i + 1 < n && cs[i + 1] == '/' {
            // line comment: up to and including the next '\n' or EOF
            i += 2;
            while i < n && cs[i] != '\n' {
                i += 1;
            }
            if i < n {
                i += 1;
            }
            continue;
        }
        if c == '/' && i + 1 < n && cs[i + 1] == '*' {
            i += 2;
            let mut closed = false;
            while i + 1 < n {
                if cs[i] == '*' && cs[i + 1] == '/' {
                    closed = true;
                    i += 2;
                    break;
                }
                i += 1;
            }
            if !closed {
                return Err(LexErr::UnterminatedComment);
            }
            continue;
        }
        if is_op_char(c) {
            let next = cs.get(i + 1).copied();
            let next2 = cs.get(i + 2).copied();
            let (t, len) = match c {
                '+' if next == Some('=') => (Tok::PlusAssign, 2),
                '+' => (Tok::Plus, 1),
                '-' if next == Some('=') => (Tok::MinusAssign, 2),
                '-' => (Tok::Minus, 1),
                '*' if next == Some('=') => (Tok::StarAssign, 2),
                '*' => (Tok::Star, 1),
                '/' if next == Some('=') => (Tok::SlashAssign, 2),
                '/' => (Tok::Slash, 1),
                '%' if next == Some('=') => (Tok::PercentAssign, 2),
                '%' => (Tok::Percent, 1),
                '^' if next == Some('=') => (Tok::HatAssign, 2),
                '^' => (Tok::Hat, 1),
                '(' => (Tok::LParen, 1),
                ')' => (Tok::RParen, 1),
                ',' => (Tok::Comma, 1),
                ';' => (Tok::Semi, 1),
                '=' if next == Some('=') => (Tok::Eq, 2),
                '=' => (Tok::Assign, 1),
                '!' if next == Some('=') => (Tok::Neq, 2),
                '!' => (Tok::Not, 1),
                '>' if next == Some('=') => (Tok::Geq, 2),
                '>' => (Tok::Gt, 1),
                '<' if next == Some('=') => (Tok::Leq, 2),
                '<' => (Tok::Lt, 1),
                '&' if next == Some('&') && next2 == Some('=') => (Tok::AndAssign, 3),
                '&' if next == Some('&') => (Tok::And, 2),
                '|' if next == Some('|') && next2 == Some('=') => (Tok::OrAssign, 3),
                '|' if next == Some('|') => (Tok::Or, 2),
                '&' | '|' => return Err(LexErr::LonePartial(c)),
                _ => unreachable!(),
            };
            toks.push(t);
            i += len;
            continue;
        }
        // a word
        let start = i;
        while i < n && is_word_char(cs[i]) {
            i += 1;
        }
        let w: String = cs[start..i].iter().collect();
        match classify_word(&w) {
            WordClass::Int(v) => toks.push(Tok::Int(v)),
            WordClass::Float(f) => toks.push(Tok::Float(f)),
            WordClass::Bool(b) => toks.push(Tok::Bool(b)),
            WordClass::Unclaimed => {
                d6 = true;
                toks.push(Tok::Opaque(w));
            },
            WordClass::Ident => {
                // `M e` immediately followed by + or - and immediately by a word of digits
                if is_mantissa_e(&w) && i < n && (cs[i] == '+' || cs[i] == '-') {
                    let mut j = i + 1;
                    while j < n && is_word_char(cs[j]) {
                        j += 1;
                    }
                    let w2: String = cs[i + 1..j].iter().collect();
                    if all_digits(&w2) {
                        let text = format!("{}{}{}", w, cs[i], w2);
                        let f: f64 = text.parse().expect("signed-exponent float must be accepted by std");
                        toks.push(Tok::Float(f));
                        i = j;
                        continue;
                    }
                }
                toks.push(Tok::Ident(w));
            },
        }
    }
    Ok(LexOut { toks, d6 })
}

/// Would rendering `a` directly followed by `b` (no separator) be read back as exactly `[a, b]`?
/// `c` is the token after `b` (needed for the three-part signed exponent).
pub fn fuses(a: &Tok, b: &Tok, c: Option<&Tok>) -> bool {
    let mut text = a.text();
    text.push_str(&b.text());
    let mut expect = vec![a.clone(), b.clone()];
    if let Some(c) = c {
        text.push_str(&c.text());
        expect.push(c.clone());
    }
    match lex(&text) {
        Ok(out) => out.toks != expect || out.d6,
        Err(_) => true,
    }
}

/// Render a token sequence with single spaces between tokens.
pub fn render_spaced(toks: &[Tok]) -> String {
    let mut s = String::new();
    for (i, t) in toks.iter().enumerate() {
        if i > 0 {
            s.push(' ');
        }
        s.push_str(&t.text());
    }
    s
}

/// Render with separators only where needed to prevent fusion (gap i is between token i-1 and i).
pub fn render_tight(toks: &[Tok]) -> String {
    let mut s = String::new();
    for (i, t) in toks.iter().enumerate() {
        if i > 0 && gap_needs_separator(toks, i) {
            s.push(' ');
        }
        s.push_str(&t.text());
    }
    s
}

fn window_ok(toks: &[Tok], lo: usize, hi: usize, tight: &dyn Fn(usize) -> bool) -> bool {
    let mut text = String::new();
    for k in lo..hi {
        if k > lo && !tight(k) {
            text.push(' ');
        }
        text.push_str(&toks[k].text());
    }
    match lex(&text) {
        Ok(out) => (!out.d6 || toks[lo..hi].iter().any(|t| t.is_opaque())) && out.toks == toks[lo..hi],
        Err(_) => false,
    }
}

/// Only gap `i` tight (all other gaps spaced): is the neighbourhood read back differently?
pub fn pair_fuses(toks: &[Tok], i: usize) -> bool {
    let lo = i.saturating_sub(1);
    let hi = (i + 1).min(toks.len());
    !window_ok(toks, lo, hi, &|k| k == i)
}

/// Context-sensitive variant of [`gap_needs_separator`]: with gap `i` empty and the two
/// neighbouring gaps as they actually are (`left_tight` / `right_tight`), is the neighbourhood
/// [i-2, i+2) read back differently? `1e- 3` keeps its three tokens although `1e-3` does not, so
/// the gap between `1e` and `-` needs a separator only while the gap after `-` is empty.
pub fn gap_needs_separator_given(toks: &[Tok], i: usize, left_tight: bool, right_tight: bool) -> bool {
    if pair_fuses(toks, i) {
        return true;
    }
    let lo = i.saturating_sub(2);
    let hi = (i + 2).min(toks.len());
    let l = left_tight && i >= 2;
    let r = right_tight && i + 1 < toks.len();
    !window_ok(toks, lo, hi, &|k| k == i || (l && k + 1 == i) || (r && k == i + 1))
}

/// Does the gap before token `i` (1 <= i < len) need a non-empty separator?
/// Decided by re-tokenising the neighbourhood [i-2, i+2) with gap i tight and every combination of
/// the two neighbouring gaps tight (only if they do not fuse on their own) or spaced, so that the
/// three-part `1e` `+` `5` join is seen. Conservative: a separator is demanded if any combination
/// is read back differently. Admissibility of a whole rendering is asserted separately.
pub fn gap_needs_separator(toks: &[Tok], i: usize) -> bool {
    if pair_fuses(toks, i) {
        return true;
    }
    let lo = i.saturating_sub(2);
    let hi = (i + 2).min(toks.len());
    let left_ok = i >= 2 && !pair_fuses(toks, i - 1);
    let right_ok = i + 1 < toks.len() && !pair_fuses(toks, i + 1);
    for mask in 1..4u8 {
        let l = mask & 1 != 0;
        let r = mask & 2 != 0;
        if (l && !left_ok) || (r && !right_ok) {
            continue;
        }
        if !window_ok(toks, lo, hi, &|k| k == i || (l && k + 1 == i) || (r && k == i + 1)) {
            return true;
        }
    }
    false
}
