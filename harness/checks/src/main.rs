#![allow(dead_code)]
//! vcheck — generated-input checks of the evalexpr properties against the reference model.
//!
//!   vcheck <Cxx> [--tier quick|thorough]     run one property's check, write its evidence
//!   vcheck replay <file>                     re-execute a saved failing case (exit 1 if it still fails)
//!   vcheck merge <out> <in>...               merge per-profile evidence files




use std::path::Path;

use vchecks::*;

use vcore::serde_json::{json, Value as J};
use vcore::{Report, Tier};

fn usage() -> ! {
    eprintln!("usage: vcheck <C01..C16> [--tier quick|thorough] | vcheck replay <file> | vcheck merge <out> <in>...");
    std::process::exit(2)
}

fn run_property(id: &str, rep: &Report) {
    match id {
        "C01" => c01::run(rep),
        "C02" => c02::run(rep),
        "C03" => c03::run(rep),
        "C04" => c04::run(rep),
        "C05" => c05::run(rep),
        "C11" => c11::run(rep),
        "C12" => c12::run(rep),
        "C13" => c13::run(rep),
        "C14" => c14::run(rep),
        "C06" => c06::run(rep),
        "C07" => c07::run(rep),
        "C08" => c08::run(rep),
        "C09" => c09::run(rep),
        "C10" => c10::run(rep),
        _ => {
            eprintln!("unknown or not yet implemented property {}", id);
            std::process::exit(2)
        },
    }
    // scale families (sizes around typical capacities) through the property's per-case check
    for p in ["C01", "C02", "C05", "C07", "C08", "C09", "C11", "C12", "C13", "C14"] {
        if p == id {
            vchecks::scale::run_for(rep, p);
        }
    }
    if id == "C13" {
        c13::run_scale(rep);
    }
}

fn replay_property(id: &str, case: &J, rep: &Report) {
    match id {
        "C01" => c01::replay(case, rep),
        "C02" => c02::replay(case, rep),
        "C03" => c03::replay(case, rep),
        "C04" => c04::replay(case, rep),
        "C05" => c05::replay(case, rep),
        "C11" => c11::replay(case, rep),
        "C12" => c12::replay(case, rep),
        "C13" => c13::replay(case, rep),
        "C14" => c14::replay(case, rep),
        "C06" => c06::replay(case, rep),
        "C07" => c07::replay(case, rep),
        "C08" => c08::replay(case, rep),
        "C09" => c09::replay(case, rep),
        "C10" => c10::replay(case, rep),
        _ => {
            eprintln!("unknown property {} in replay file", id);
            std::process::exit(2)
        },
    }
}

/// Replay every saved case under replays/<id>/ (the seconds-long regression tier).
fn replay_saved(id: &str, rep: &Report) {
    let dir = vcore::verif_root().join("replays").join(id);
    let mut files: Vec<_> = match std::fs::read_dir(&dir) {
        Ok(rd) => rd.filter_map(|e| e.ok()).map(|e| e.path()).filter(|p| p.extension().map_or(false, |x| x == "json")).collect(),
        Err(_) => return,
    };
    files.sort();
    let mut n = 0;
    for f in files {
        match vcore::read_json(&f) {
            Ok(j) => {
                replay_property(id, &j["case"], rep);
                n += 1;
            },
            Err(e) => {
                eprintln!("HARNESS ERROR: {}", e);
                std::process::exit(2);
            },
        }
    }
    rep.add_extra("saved_replays_executed", json!(n));
}

fn merge(out: &str, inputs: &[String]) -> i32 {
    let mut merged: Option<J> = None;
    for p in inputs {
        let j = match vcore::read_json(Path::new(p)) {
            Ok(j) => j,
            Err(e) => {
                eprintln!("HARNESS ERROR: {}", e);
                return 2;
            },
        };
        merged = Some(match merged {
            None => {
                let mut j = j;
                let prof = j["coverage"]["profile"].clone();
                j["coverage"]["profiles"] = json!([prof]);
                j
            },
            Some(mut m) => {
                let add = |a: &J, b: &J| json!(a.as_u64().unwrap_or(0) + b.as_u64().unwrap_or(0));
                m["coverage"]["evaluations"] = add(&m["coverage"]["evaluations"], &j["coverage"]["evaluations"]);
                // the same cases are explored in both profiles: distinct cases do not add up
                let d = m["coverage"]["distinct_nontrivial"].as_u64().unwrap_or(0).max(j["coverage"]["distinct_nontrivial"].as_u64().unwrap_or(0));
                m["coverage"]["distinct_nontrivial"] = json!(d);
                m["wall_s"] = json!(m["wall_s"].as_f64().unwrap_or(0.0) + j["wall_s"].as_f64().unwrap_or(0.0));
                m["violations"] = add(&m["violations"], &j["violations"]);
                if let Some(arr) = m["coverage"]["profiles"].as_array_mut() {
                    arr.push(j["coverage"]["profile"].clone());
                }
                let key = format!("labels_{}", j["coverage"]["profile"].as_str().unwrap_or("other"));
                m["coverage"][key] = j["coverage"]["labels"].clone();
                if let (Some(a), Some(b)) = (m["coverage"]["known_findings_hit"].as_array().cloned(), j["coverage"]["known_findings_hit"].as_array()) {
                    let mut a = a;
                    for x in b {
                        if !a.contains(x) {
                            a.push(x.clone());
                        }
                    }
                    m["coverage"]["known_findings_hit"] = J::Array(a);
                }
                m
            },
        });
    }
    match merged {
        Some(m) => {
            if let Some(parent) = Path::new(out).parent() {
                let _ = std::fs::create_dir_all(parent);
            }
            match std::fs::write(out, vcore::serde_json::to_string_pretty(&m).unwrap()) {
                Ok(()) => 0,
                Err(e) => {
                    eprintln!("HARNESS ERROR: cannot write {}: {}", out, e);
                    2
                },
            }
        },
        None => 2,
    }
}

fn main() {
    let args: Vec<String> = std::env::args().skip(1).collect();
    if args.is_empty() {
        usage();
    }
    let code = match args[0].as_str() {
        "merge" => {
            if args.len() < 3 {
                usage();
            }
            merge(&args[1], &args[2..])
        },
        "replay" => {
            if args.len() != 2 {
                usage();
            }
            let j = match vcore::read_json(Path::new(&args[1])) {
                Ok(j) => j,
                Err(e) => {
                    eprintln!("HARNESS ERROR: {}", e);
                    std::process::exit(2);
                },
            };
            let id = j["property"].as_str().unwrap_or("").to_string();
            // replay never overwrites the evidence file of the property
            if std::env::var("VERIF_EVIDENCE_OUT").is_err() {
                std::env::set_var("VERIF_EVIDENCE_OUT", vcore::verif_root().join("out").join(format!("replay_{}.json", id)));
            }
            let mut rep = Report::new(&id, Tier::Quick, vcore::seed_from_env());
            rep.strict = true;
            rep.set_rule("replay of one saved case");
            vcore::on_big_stack(|| replay_property(&id, &j["case"], &rep));
            rep.finish()
        },
        id => {
            let mut tier = match std::env::var("VERIF_TIER").ok().as_deref() {
                Some("thorough") => Tier::Thorough,
                _ => Tier::Quick,
            };
            let mut i = 1;
            while i < args.len() {
                match args[i].as_str() {
                    "--tier" => {
                        tier = match args.get(i + 1).map(|s| s.as_str()) {
                            Some("quick") => Tier::Quick,
                            Some("thorough") => Tier::Thorough,
                            _ => usage(),
                        };
                        i += 2;
                    },
                    _ => usage(),
                }
            }
            let rep = Report::new(id, tier, vcore::seed_from_env());
            vcore::on_big_stack(|| {
                replay_saved(id, &rep);
                run_property(id, &rep);
            });
            rep.finish()
        },
    };
    std::process::exit(code);
}
