//! C04 — variables keep the last assigned value; HashMapContext is type safe.

use adapt::{build_hashmap, from_rv, make_function, map_err, map_result, new_log, observe, state_diff, to_rv, HCtx, Log};
use evalexpr::{Context, ContextWithMutableFunctions, ContextWithMutableVariables};
use proptest::prelude::*;
use proptest::sample::select;
use refmodel::ast::{AssignOp, Ast};
use refmodel::gen;
use refmodel::interp::{run as ref_run, Ctx, Kind, UF};
use refmodel::pools;
use refmodel::value::{outcome_canon, outcome_matches, RE, RR, RV};
use vcore::serde_json::{json, Value as J};
use vcore::{Local, Report};

use crate::common::{self, fail, Outcome};
use crate::matrix;

#[derive(Clone, Debug)]
pub enum Op {
    SetValue(String, RV),
    /// `name op= <literal>` evaluated with eval_with_context_mut
    EvalAssign(AssignOp, String, RV),
    /// `name op= other` (right-hand side is a variable read)
    EvalAssignVar(AssignOp, String, String),
    GetValue(String),
    EvalRead(String),
    ClearVariables,
    ClearFunctions,
    Clear,
    SetFunction(String, UF),
    Toggle(bool),
    /// continue on a clone; the original must stay as it was
    CloneAndContinue,
}

impl Op {
    fn describe(&self) -> String {
        match self {
            Op::SetValue(n, v) => format!("set_value({}, {})", n, v),
            Op::EvalAssign(o, n, v) => format!("eval `{} {} {}`", n, o.tok().text(), pools::literal_text(v).unwrap_or_default()),
            Op::EvalAssignVar(o, n, m) => format!("eval `{} {} {}`", n, o.tok().text(), m),
            Op::GetValue(n) => format!("get_value({})", n),
            Op::EvalRead(n) => format!("eval `{}`", n),
            Op::ClearVariables => "clear_variables()".into(),
            Op::ClearFunctions => "clear_functions()".into(),
            Op::Clear => "clear()".into(),
            Op::SetFunction(n, f) => format!("set_function({}, {})", n, f.describe()),
            Op::Toggle(b) => format!("set_builtin_functions_disabled({})", b),
            Op::CloneAndContinue => "clone() and continue on the clone".into(),
        }
    }
    fn to_json(&self) -> J {
        match self {
            Op::SetValue(n, v) => json!({"op": "set_value", "name": n, "value": v.canon()}),
            Op::EvalAssign(o, n, v) => json!({"op": "eval_assign", "aop": o.tok().text(), "name": n, "value": v.canon()}),
            Op::EvalAssignVar(o, n, m) => json!({"op": "eval_assign_var", "aop": o.tok().text(), "name": n, "rhs": m}),
            Op::GetValue(n) => json!({"op": "get_value", "name": n}),
            Op::EvalRead(n) => json!({"op": "eval_read", "name": n}),
            Op::ClearVariables => json!({"op": "clear_variables"}),
            Op::ClearFunctions => json!({"op": "clear_functions"}),
            Op::Clear => json!({"op": "clear"}),
            Op::SetFunction(n, f) => json!({"op": "set_function", "name": n, "f": common::uf_to_json(f)}),
            Op::Toggle(b) => json!({"op": "toggle", "disabled": b}),
            Op::CloneAndContinue => json!({"op": "clone"}),
        }
    }
    fn from_json(j: &J) -> Option<Op> {
        let aop = |s: &str| AssignOp::ALL.iter().copied().find(|a| a.tok().text() == s);
        let name = || j["name"].as_str().map(|s| s.to_string());
        Some(match j["op"].as_str()? {
            "set_value" => Op::SetValue(name()?, RV::from_canon(j["value"].as_str()?)?),
            "eval_assign" => Op::EvalAssign(aop(j["aop"].as_str()?)?, name()?, RV::from_canon(j["value"].as_str()?)?),
            "eval_assign_var" => Op::EvalAssignVar(aop(j["aop"].as_str()?)?, name()?, j["rhs"].as_str()?.to_string()),
            "get_value" => Op::GetValue(name()?),
            "eval_read" => Op::EvalRead(name()?),
            "clear_variables" => Op::ClearVariables,
            "clear_functions" => Op::ClearFunctions,
            "clear" => Op::Clear,
            "set_function" => Op::SetFunction(name()?, common::uf_from_json(&j["f"])?),
            "toggle" => Op::Toggle(j["disabled"].as_bool()?),
            "clone" => Op::CloneAndContinue,
            _ => return None,
        })
    }
}

fn history_json(prefix: &[Op], ops: &[Op]) -> J {
    json!({"kind": "history", "setup": prefix.iter().map(|o| o.to_json()).collect::<Vec<_>>(), "ops": ops.iter().map(|o| o.to_json()).collect::<Vec<_>>(),
           "readable": prefix.iter().chain(ops).map(|o| o.describe()).collect::<Vec<_>>()})
}

struct Sys {
    real: HCtx,
    model: Ctx,
    log: Log,
    /// originals left behind by CloneAndContinue, with the model state they must keep
    left_behind: Vec<(HCtx, Ctx)>,
}

impl Sys {
    fn new() -> Sys {
        let log = new_log();
        let model = Ctx::new(Kind::HashMap);
        let real = build_hashmap(&model, &log);
        Sys { real, model, log, left_behind: Vec::new() }
    }
}

/// Outcome of one step: Ok(description of what was compared) or a mismatch.
fn step(sys: &mut Sys, op: &Op, var_probes: &[String], fn_probes: &[String]) -> Result<bool, (String, String, String)> {
    // returns Ok(step_failed_in_model)
    let mut failed = false;
    match op {
        Op::SetValue(n, v) => {
            let m = sys.model.set(n, v.clone());
            let r = sys.real.set_value(n.clone(), from_rv(v)).map_err(|e| map_err(&e));
            failed = m.is_err();
            let same = match (&m, &r) {
                (Ok(()), Ok(())) => true,
                (Err(a), Err(b)) => a.matches(b),
                _ => false,
            };
            if !same {
                return Err(("set_value result".into(), format!("{:?}", m.map_err(|e| e.canon())), format!("{:?}", r.map_err(|e| e.canon()))));
            }
        },
        Op::EvalAssign(..) | Op::EvalAssignVar(..) => {
            let (aop, name, rhs_ast, src) = match op {
                Op::EvalAssign(o, n, v) => {
                    let lit = pools::literal_text(v).expect("expressible literal");
                    let toks = refmodel::tok::lex(&lit).expect("literal lexes").toks;
                    let rhs = refmodel::parse::parse(&toks).expect("literal parses").strip_parens();
                    (*o, n.clone(), rhs, format!("{} {} {}", n, o.tok().text(), lit))
                },
                Op::EvalAssignVar(o, n, m) => (*o, n.clone(), Ast::Var(m.clone()), format!("{} {} {}", n, o.tok().text(), m)),
                _ => unreachable!(),
            };
            // `x op= y` with x and y both unbound: C04 reads it as `x = x op y` (x is missed first),
            // C08 evaluates the operand y first; which of the two not-found errors is reported is
            // C08's business, here either is accepted.
            let either_unbound: Option<RR> = match op {
                Op::EvalAssignVar(o, n, m2) if *o != AssignOp::Set && sys.model.get(n).is_none() && sys.model.get(m2).is_none() => {
                    Some(Err(RE::VarNotFound(n.clone())))
                },
                _ => None,
            };
            let ast = Ast::Assign(aop, name, Box::new(rhs_ast));
            let (m, _, _) = ref_run(&ast, &mut sys.model, true, matrix::unit());
            if let Err(e) = &m {
                if e.is_unclaimed() {
                    // (D8 inside a program) cannot continue this history
                    return Err(("UNCLAIMED".into(), String::new(), String::new()));
                }
            }
            failed = m.is_err();
            let r = map_result(&evalexpr::eval_with_context_mut(&src, &mut sys.real));
            if !outcome_matches(&m, &r) && !either_unbound.map_or(false, |alt| outcome_matches(&alt, &r)) {
                return Err((format!("result of `{}`", src), outcome_canon(&m), outcome_canon(&r)));
            }
        },
        Op::GetValue(n) => {
            let m = sys.model.get(n).cloned();
            let r = sys.real.get_value(n).map(to_rv);
            let same = match (&m, &r) {
                (None, None) => true,
                (Some(a), Some(b)) => a.same(b),
                _ => false,
            };
            if !same {
                return Err((format!("get_value({})", n), format!("{:?}", m.map(|v| v.canon())), format!("{:?}", r.map(|v| v.canon()))));
            }
        },
        Op::EvalRead(n) => {
            let m: RR = sys.model.get(n).cloned().ok_or(RE::VarNotFound(n.clone()));
            let r = map_result(&evalexpr::eval_with_context(n, &sys.real));
            if !outcome_matches(&m, &r) {
                return Err((format!("eval `{}`", n), outcome_canon(&m), outcome_canon(&r)));
            }
        },
        Op::ClearVariables => {
            sys.model.clear_variables();
            sys.real.clear_variables();
        },
        Op::ClearFunctions => {
            sys.model.clear_functions();
            sys.real.clear_functions();
        },
        Op::Clear => {
            sys.model.clear();
            sys.real.clear();
        },
        Op::SetFunction(n, f) => {
            sys.model.set_function(n, f.clone());
            sys.real.set_function(n.clone(), make_function(n, f, &sys.log)).map_err(|e| ("set_function".to_string(), "Ok".to_string(), format!("{:?}", e)))?;
        },
        Op::Toggle(b) => {
            let _ = sys.model.set_builtins_disabled(*b);
            sys.real.set_builtin_functions_disabled(*b).map_err(|e| ("toggle".to_string(), "Ok".to_string(), format!("{:?}", e)))?;
        },
        Op::CloneAndContinue => {
            let c = sys.real.clone();
            let original = std::mem::replace(&mut sys.real, c);
            sys.left_behind.push((original, sys.model.clone()));
        },
    }
    // complete observable state after every step
    let obs = observe(&sys.real, var_probes, fn_probes);
    adapt::take_log(&sys.log);
    if let Some(d) = state_diff(&obs, &sys.model) {
        return Err(("observable state".into(), sys.model.describe(), d));
    }
    // a builtin resolves iff builtins are enabled (through evaluation)
    let r = evalexpr::eval_with_context("typeof(1)", &sys.real);
    let builtin_ok = r.is_ok();
    adapt::take_log(&sys.log);
    let expect = match sys.model.funcs.get("typeof") {
        Some(f) => f.apply(&RV::Int(1)).is_ok(),
        None => !sys.model.builtins_disabled,
    };
    if builtin_ok != expect {
        return Err(("builtin switch through evaluation".into(), format!("{}", expect), format!("{:?}", r)));
    }
    Ok(failed)
}

fn check_left_behind(sys: &Sys, var_probes: &[String], fn_probes: &[String]) -> Result<(), (String, String, String)> {
    for (orig, model) in &sys.left_behind {
        let obs = observe(orig, var_probes, fn_probes);
        adapt::take_log(&sys.log);
        if let Some(d) = state_diff(&obs, model) {
            return Err(("original changed after mutating its clone".into(), model.describe(), d));
        }
    }
    Ok(())
}

fn step_signature(op: &Op, what: &str) -> String {
    let kind = match op {
        Op::SetValue(..) => "set_value",
        Op::EvalAssign(o, ..) | Op::EvalAssignVar(o, ..) => {
            if *o == AssignOp::Set {
                "expression assignment"
            } else {
                "expression op-assignment"
            }
        },
        Op::GetValue(_) => "get_value",
        Op::EvalRead(_) => "eval read",
        Op::ClearVariables => "clear_variables",
        Op::ClearFunctions => "clear_functions",
        Op::Clear => "clear",
        Op::SetFunction(..) => "set_function",
        Op::Toggle(_) => "toggle builtins",
        Op::CloneAndContinue => "clone",
    };
    let what = if what.starts_with("result of") { "result" } else { what };
    format!("C04/after {}: {} differs from the map model", kind, what)
}

/// Run setup + ops against real context and model; compare after every step.
pub fn check_history(setup: &[Op], ops: &[Op], names: &[String], fnames: &[String], exhaustive: bool, l: &mut Local) -> Outcome {
    let r = vcore::catch(|| {
        let mut sys = Sys::new();
        let mut had_success = false;
        let mut nontrivial = false;
        let mut cleared_or_cloned = false;
        for (i, op) in setup.iter().chain(ops.iter()).enumerate() {
            let before_tags: Vec<_> = names.iter().map(|n| sys.model.get(n).map(|v| v.tag())).collect();
            match step(&mut sys, op, names, fnames) {
                Ok(failed) => {
                    let is_assign = matches!(op, Op::SetValue(..) | Op::EvalAssign(..) | Op::EvalAssignVar(..));
                    if is_assign && failed && had_success {
                        nontrivial = true;
                    }
                    if is_assign && !failed {
                        had_success = true;
                        let after_tags: Vec<_> = names.iter().map(|n| sys.model.get(n).map(|v| v.tag())).collect();
                        let changed_type = before_tags.iter().zip(&after_tags).any(|(a, b)| a.is_some() && b.is_some() && a != b);
                        if changed_type || (cleared_or_cloned && before_tags != after_tags) {
                            nontrivial = true;
                        }
                    }
                    if matches!(op, Op::Clear | Op::ClearVariables | Op::CloneAndContinue) {
                        cleared_or_cloned = true;
                    }
                },
                Err((what, _, _)) if what == "UNCLAIMED" => return Ok((nontrivial, true)),
                Err((what, exp, act)) => return Err((i, op.clone(), what, exp, act)),
            }
        }
        if let Err((what, exp, act)) = check_left_behind(&sys, names, fnames) {
            return Err((setup.len() + ops.len(), Op::CloneAndContinue, what, exp, act));
        }
        Ok((nontrivial, false))
    });
    match r {
        Err(p) => fail(
            format!("C04/panic {}", p.signature()),
            "no panic",
            format!("panic: {} at {}", p.message, p.location),
            history_json(setup, ops),
            setup.len() + ops.len(),
        ),
        Ok(Ok((nontrivial, unclaimed))) => {
            if unclaimed {
                l.label("history cut at an unclaimed step (D8)");
            }
            if nontrivial {
                l.label("failed assignment after a successful one / type change / re-typing after clear or clone");
                if exhaustive {
                    // distinct by construction (each state x operation is enumerated once)
                    l.nontrivial_direct += 1;
                } else {
                    l.nontrivial_key(&format!("{:?}", ops.iter().map(|o| o.describe()).collect::<Vec<_>>()));
                }
            }
            Ok(())
        },
        Ok(Err((i, op, what, exp, act))) => fail(
            step_signature(&op, &what),
            exp,
            format!("{} (at step {}: {})", act, i, op.describe()),
            history_json(setup, ops),
            setup.len() + ops.len(),
        ),
    }
}

// ---------------------------------------------------------------------------------------------
// exhaustive part
// ---------------------------------------------------------------------------------------------

fn domain_values() -> Vec<RV> {
    use RV::*;
    vec![
        Int(1),
        Int(2),
        Float(1.5),
        Float(-1.0),
        Float(0.0),
        Float(-0.0),
        Str("s".into()),
        Str("".into()),
        Bool(true),
        Bool(false),
        Tuple(vec![Int(1), Int(2)]),
        // another length and other element types at the shared indices
        Tuple(vec![Float(2.5), Str("x".into()), Int(3)]),
        Empty,
    ]
}

/// All operations applicable from a state of the finite domain.
fn domain_ops() -> Vec<Op> {
    let vals = domain_values();
    let names = ["a", "b"];
    let mut ops = Vec::new();
    for n in names {
        for v in &vals {
            ops.push(Op::SetValue(n.into(), v.clone()));
            for a in AssignOp::ALL {
                ops.push(Op::EvalAssign(a, n.into(), v.clone()));
            }
        }
        for a in AssignOp::ALL {
            for m in names {
                ops.push(Op::EvalAssignVar(a, n.into(), m.into()));
            }
        }
        ops.push(Op::GetValue(n.into()));
        ops.push(Op::EvalRead(n.into()));
    }
    ops.push(Op::ClearVariables);
    ops.push(Op::ClearFunctions);
    ops.push(Op::Clear);
    ops.push(Op::SetFunction("f".into(), UF::Identity));
    ops.push(Op::Toggle(true));
    ops.push(Op::Toggle(false));
    ops.push(Op::CloneAndContinue);
    ops
}

/// Setup history reaching abstract state `idx`; `dirty` first assigns other types and clears, so
/// that retained type information would show.
fn state_setup(idx: u64, dirty: bool) -> Vec<Op> {
    let vals = domain_values();
    let k = vals.len() as u64 + 1;
    let a = idx % k;
    let b = (idx / k) % k;
    let has_f = (idx / (k * k)) % 2 == 1;
    let disabled = (idx / (k * k * 2)) % 2 == 1;
    let mut s = Vec::new();
    if dirty {
        s.push(Op::SetValue("a".into(), RV::Str("zz".into())));
        s.push(Op::SetValue("b".into(), RV::Tuple(vec![RV::Int(9)])));
        s.push(Op::SetFunction("g".into(), UF::Const(RV::Int(1))));
        s.push(Op::Toggle(!disabled));
        s.push(Op::CloneAndContinue);
        s.push(Op::Clear);
    }
    if a > 0 {
        s.push(Op::SetValue("a".into(), vals[(a - 1) as usize].clone()));
    }
    if b > 0 {
        s.push(Op::EvalAssign(AssignOp::Set, "b".into(), vals[(b - 1) as usize].clone()));
    }
    if has_f {
        s.push(Op::SetFunction("f".into(), UF::Tag(1)));
    }
    s.push(Op::Toggle(disabled));
    s
}

fn state_count() -> u64 {
    let k = domain_values().len() as u64 + 1;
    k * k * 2 * 2
}

// ---------------------------------------------------------------------------------------------
// random histories
// ---------------------------------------------------------------------------------------------

fn arb_op() -> BoxedStrategy<Op> {
    let name = || select(vec!["a", "b", "c", "ä"]).prop_map(|s| s.to_string());
    // constructed, not filtered: a value without a literal form is replaced
    let expressible = gen::arb_value().prop_map(|v| if pools::literal_text(&v).is_some() { v } else { RV::Int(7) });
    let small = select(domain_values());
    let aop = || select(AssignOp::ALL.to_vec());
    prop_oneof![
        5 => (name(), prop_oneof![2 => gen::arb_value(), 3 => small.clone()]).prop_map(|(n, v)| Op::SetValue(n, v)),
        6 => (aop(), name(), prop_oneof![2 => expressible, 4 => small]).prop_map(|(o, n, v)| Op::EvalAssign(o, n, v)),
        3 => (aop(), name(), name()).prop_map(|(o, n, m)| Op::EvalAssignVar(o, n, m)),
        1 => name().prop_map(Op::GetValue),
        1 => name().prop_map(Op::EvalRead),
        1 => Just(Op::ClearVariables),
        1 => Just(Op::ClearFunctions),
        1 => Just(Op::Clear),
        // also functions named like the variables: the two namespaces are separate
        1 => (select(vec!["f", "g", "typeof", "a", "ä"]).prop_map(|s| s.to_string()), gen::arb_uf()).prop_map(|(n, f)| Op::SetFunction(n, f)),
        1 => any::<bool>().prop_map(Op::Toggle),
        1 => Just(Op::CloneAndContinue),
    ]
    .boxed()
}

fn names4() -> (Vec<String>, Vec<String>) {
    (
        ["a", "b", "c", "ä"].iter().map(|s| s.to_string()).collect(),
        ["f", "g", "typeof", "h", "a", "ä"].iter().map(|s| s.to_string()).collect(),
    )
}

pub fn run(rep: &Report) {
    rep.set_rule(
        "(a) exhaustive over a finite domain: every abstract state (value-or-unbound for a and b over 13 values of the \
         six types incl. both zeros and tuples of different element types, function set, builtin switch = 784 states), each reached by a clean and by a 'dirty' history \
         (other types assigned, cloned, cleared first), x every operation (set_value, `x op= literal` and `x op= y` for \
         all 9 assignment operators, reads, clear_variables / clear_functions / clear, set_function, toggle, \
         clone-and-continue); after every step the return value (exact expected-type error on a type clash) and the \
         complete observable state (get_value of every name, iter_variables, iter_variable_names, call_function, \
         builtin switch, also through evaluation) equal the map model; originals left behind by clone stay unchanged. \
         (b) histories binding 1..400 distinct variables of all six types at once (sizes around typical capacities), with type clashes, overwrites, op-assignments, a clone and a clear afterwards. (c) random histories of up to 60 operations over names {a,b,c,ä} and pool values. Non-trivial: a history with \
         a failed assignment after a successful one, an assignment changing a variable's type after clear, or an \
         op-assignment changing the type.",
    );
    rep.assume("user functions registered by the harness never fail to register");
    let ops = domain_ops();
    let n_ops = ops.len() as u64;
    let n_states = state_count();
    let names: Vec<String> = vec!["a".into(), "b".into()];
    let fnames: Vec<String> = vec!["f".into(), "g".into()];
    common::enumerate(rep, "state-x-op", n_states * 2 * n_ops, 64, &|i, l| {
        let op = &ops[(i % n_ops) as usize];
        let s = (i / n_ops) % n_states;
        let dirty = i / (n_ops * n_states) == 1;
        let setup = state_setup(s, dirty);
        // a second operation after a clone exercises "mutate the clone, re-inspect the original"
        let follow: Vec<Op> = if matches!(op, Op::CloneAndContinue) {
            vec![op.clone(), Op::SetValue("a".into(), RV::Int(2)), Op::EvalAssign(AssignOp::Set, "b".into(), RV::Str("t".into())), Op::Clear]
        } else {
            vec![op.clone()]
        };
        if i % 20011 == 0 {
            l.sample(2, || json!(setup.iter().chain(follow.iter()).map(|o| o.describe()).collect::<Vec<_>>()));
        }
        check_history(&setup, &follow, &names, &fnames, true, l)
    });
    rep.set_exhaustive(true);
    rep.add_extra("abstract_states", json!(n_states));
    rep.add_extra("operations_per_state", json!(n_ops));
    rep.add_extra("states", json!(n_states * 2));
    rep.add_extra("transitions", json!(n_states * 2 * n_ops));
    // many variables: n distinct names bound at once (n around typical capacities), of all six
    // types, then type clashes / same-type overwrites / op-assignments on early, late and middle
    // names, a clone, one of the three clears, re-binding with other types — everything observed
    // after every step, with the builtin switch on or off and a context function present or not
    let sizes = refmodel::gen::SCALE_SIZES;
    common::enumerate(rep, "many-variables", sizes.len() as u64 * 12, 8, &|i, l| {
        let n = sizes[(i % sizes.len() as u64) as usize];
        let variant = i / sizes.len() as u64;
        // names of ordinary length, plus (every 5th) long ones of 63 / 64 / 65 / 130 / 300 bytes
        let names: Vec<String> = (0..n)
            .map(|k| if k % 5 == 4 { format!("v{}_{}", k, "n".repeat([58usize, 59, 60, 125, 295][(k / 5) % 5])) } else { format!("v{}", k) })
            .collect();
        // n context functions as well (cleared by clear / clear_functions, kept by clear_variables)
        let fnames: Vec<String> = (0..n.min(40)).map(|k| if k % 7 == 6 { format!("g{}_{}", k, "m".repeat(61)) } else { format!("g{}", k) }).collect();
        let val = |k: usize, shift: usize| -> RV {
            match (k + shift) % 6 {
                0 => RV::Int(k as i64),
                1 => RV::Float(k as f64 + 0.5),
                2 => RV::Str(format!("s{}", k)),
                3 => RV::Bool(k % 2 == 0),
                4 => RV::Tuple(vec![RV::Int(k as i64), RV::Str("t".into())]),
                _ => RV::Empty,
            }
        };
        let mut setup = vec![Op::Toggle(variant % 2 == 1)];
        if variant % 3 == 0 {
            setup.push(Op::SetFunction("f".into(), UF::Tag(2)));
        }
        for (k, f) in fnames.iter().enumerate() {
            setup.push(Op::SetFunction(f.clone(), UF::Tag(k as i64 % 3 + 1)));
        }
        // a context function named like one of the variables (separate namespaces)
        if variant % 3 == 1 {
            setup.push(Op::SetFunction(names[n / 2].clone(), UF::Const(RV::Int(77))));
            setup.push(Op::EvalRead(names[n / 2].clone()));
        }
        let mut ops: Vec<Op> = (0..n).map(|k| Op::SetValue(names[k].clone(), val(k, 0))).collect();
        let picks = [0usize, n / 2, n - 1, 15.min(n - 1), 16.min(n - 1), 17.min(n - 1)];
        for (j, k) in picks.iter().enumerate() {
            // a value of another type (must fail and change nothing), then one of the same type
            ops.push(Op::SetValue(names[*k].clone(), val(*k, 1 + j % 4)));
            ops.push(Op::SetValue(names[*k].clone(), val(*k + 6, 0)));
            ops.push(Op::EvalAssign(AssignOp::Set, names[*k].clone(), RV::Int(5)));
            ops.push(Op::EvalAssign(AssignOp::Add, names[*k].clone(), RV::Int(1)));
            ops.push(Op::GetValue(names[*k].clone()));
        }
        ops.push(Op::CloneAndContinue);
        ops.push(Op::SetValue(names[n - 1].clone(), val(n - 1 + 6, 0)));
        // (switch, clear kind) vary independently: clear() must keep a disabled switch disabled
        ops.push(match (variant / 2) % 4 {
            0 => Op::Clear,
            1 => Op::ClearVariables,
            2 => Op::ClearFunctions,
            _ => Op::EvalRead(names[n / 2].clone()),
        });
        ops.push(Op::EvalRead(names[n / 2].clone()));
        // after a clear every name may take any type again
        for k in picks {
            ops.push(Op::SetValue(names[k].clone(), val(k, 2)));
            ops.push(Op::SetValue(names[k].clone(), val(k, 3)));
        }
        ops.push(Op::EvalRead(names[0].clone()));
        l.label("history with many variables");
        let mut probes = fnames.clone();
        probes.push("f".to_string());
        probes.push("g".to_string());
        check_history(&setup, &ops, &names, &probes, false, l)
    });
    let n = rep.tier.pick(60_000u64, 6_000_000);
    let (n4, f4) = names4();
    common::random_search(
        rep,
        "random-histories",
        40,
        n,
        &|| proptest::collection::vec(arb_op(), 0..60).boxed(),
        &|ops: &Vec<Op>, l| {
            l.sample(1, || json!(ops.iter().map(|o| o.describe()).collect::<Vec<_>>()));
            let r = check_history(&[], ops, &n4, &f4, false, l);
            r
        },
    );
}

pub fn replay(case: &J, rep: &Report) {
    let mut l = Local::default();
    let parse = |k: &str| -> Vec<Op> {
        case[k].as_array().map(|a| a.iter().map(|o| Op::from_json(o).unwrap_or_else(|| common::bad_case("op"))).collect()).unwrap_or_default()
    };
    let (n4, f4) = names4();
    let r = check_history(&parse("setup"), &parse("ops"), &n4, &f4, false, &mut l);
    l.evaluations = 1;
    rep.merge(l);
    if let Err(f) = r {
        rep.fail("replay", &f.signature, f.case, f.expected, f.actual, f.size);
    }
}
