//! C14 — identifier iterators describe exactly the identifiers of the expression.

use std::collections::BTreeMap;

use adapt::{build_hashmap, map_result, new_log, normalise, observe, take_log, Tree};
use evalexpr::DefaultNumericTypes;
use proptest::prelude::*;
use proptest::sample::select;
use refmodel::ast::{render_tokens, Ast, BitChoices};
use refmodel::gen::{self, AstCfg};
use refmodel::interp::Ctx;
use refmodel::tok;
use refmodel::value::{outcome_canon, RE, RR};
use vcore::serde_json::{json, Value as J};
use vcore::{Local, Report};

use crate::common::{self, fail, Outcome};

#[derive(Clone, Debug)]
pub struct Case {
    pub ast: Ast,
    pub bits: Vec<bool>,
    pub ctx: Ctx,
    /// injective renaming of variable names: a permutation index
    pub perm: u8,
}

const VARS: [&str; 4] = ["a", "b", "e", "rate"];
const FUNCS: [&str; 4] = ["f", "g", "min", "len"];

fn rename_var(name: &str, perm: u8) -> String {
    // injective on all strings: known names are permuted among fresh names, others get a prefix
    match VARS.iter().position(|v| *v == name) {
        Some(i) => format!("r{}_{}", (i + perm as usize) % VARS.len(), perm),
        None => format!("other_{}", name),
    }
}

fn case_json(src: &str, ctx: &Ctx, perm: u8) -> J {
    json!({"kind": "iter", "src": src, "ctx": common::ctx_to_json(ctx), "perm": perm})
}

fn collect(it: impl Iterator<Item = impl AsRef<str>>) -> Vec<String> {
    it.map(|s| s.as_ref().to_string()).collect()
}

fn shape_labels(t: &Tree, l: &mut Local) -> bool {
    // a non-last child with grandchildren, an empty-parentheses node, or an n-ary sequence node
    fn walk(t: &Tree, flags: &mut (bool, bool, bool)) {
        let ch = t.children();
        for (i, c) in ch.iter().enumerate() {
            if i + 1 < ch.len() && c.children().iter().any(|g| !g.children().is_empty()) {
                flags.0 = true;
            }
            walk(c, flags);
        }
        if matches!(t.operator(), evalexpr::Operator::RootNode) && ch.is_empty() {
            flags.1 = true;
        }
        if matches!(t.operator(), evalexpr::Operator::Tuple | evalexpr::Operator::Chain) && ch.len() >= 3 {
            flags.2 = true;
        }
    }
    let mut f = (false, false, false);
    walk(t, &mut f);
    if f.0 {
        l.label("non-last child with grandchildren");
    }
    if f.1 {
        l.label("empty parentheses node");
    }
    if f.2 {
        l.label("n-ary sequence node (>= 3 elements)");
    }
    f.0 || f.1 || f.2
}

pub fn check_source(src: &str, ctx: &Ctx, perm: u8, expected_ast: Option<&Ast>, l: &mut Local) -> Outcome {
    let case = case_json(src, ctx, perm);
    let toks = match tok::lex(src) {
        Ok(o) if !o.d6 => o.toks,
        _ => return Ok(()),
    };
    let ast = match refmodel::parse::classify(&toks) {
        refmodel::parse::Class::WellFormed(a) => a.strip_parens(),
        _ => {
            l.label("not in the claimed domain");
            return Ok(());
        },
    };
    if let Some(e) = expected_ast {
        if !e.same(&ast) {
            return fail("HARNESS/C14: renderer and reference parser disagree", e.sexp(), ast.sexp(), case, src.len());
        }
    }
    let tree = match vcore::catch(|| evalexpr::build_operator_tree::<DefaultNumericTypes>(src)) {
        Ok(Ok(t)) => t,
        _ => {
            l.label("does not build (C02/C05/C01)");
            return Ok(());
        },
    };
    if !normalise(&tree).same(&ast) {
        // the shape is C02/C05's business; the iterators are still held to the identifier
        // occurrences of the *source* (the reference parse), which is what C14 states
        l.label("tree differs from the reference parse (C02/C05); iterators still compared with the source's occurrences");
    }
    // (i) occurrence lists
    let mut occ = Vec::new();
    ast.occurrences(&mut occ);
    let names = |f: &dyn Fn(char) -> bool| -> Vec<String> { occ.iter().filter(|(_, c)| f(*c)).map(|(n, _)| n.clone()).collect() };
    let classes = occ.iter().map(|(_, c)| *c).collect::<std::collections::BTreeSet<_>>().len();
    let interesting_shape = shape_labels(&tree, l);
    if interesting_shape && occ.len() >= 3 && classes >= 2 {
        l.nontrivial_key(src);
    }
    let expectations: Vec<(&str, Vec<String>, Vec<String>)> = vec![
        ("iter_identifiers", names(&|_| true), collect(tree.iter_identifiers())),
        ("iter_variable_identifiers", names(&|c| c != 'c'), collect(tree.iter_variable_identifiers())),
        ("iter_read_variable_identifiers", names(&|c| c == 'r'), collect(tree.iter_read_variable_identifiers())),
        ("iter_write_variable_identifiers", names(&|c| c == 'w'), collect(tree.iter_write_variable_identifiers())),
        ("iter_function_identifiers", names(&|c| c == 'c'), collect(tree.iter_function_identifiers())),
    ];
    for (which, want, got) in &expectations {
        if want != got {
            return fail(format!("C14/{} differs from the occurrence list", which), format!("{:?}", want), format!("{:?}", got), case, src.len());
        }
    }
    // however the iterator is consumed (external next(), internal fold / for_each / last / count /
    // nth after a partial advance), the sequence is the same
    let all = &expectations[0].1;
    for k in 0..all.len().min(4) {
        let mut it = tree.iter_identifiers();
        for _ in 0..k {
            it.next();
        }
        let folded: Vec<String> = it.fold(Vec::new(), |mut acc, s| {
            acc.push(s.to_string());
            acc
        });
        if folded != all[k..] {
            return fail(
                "C14/iter_identifiers consumed by fold after a partial advance differs",
                format!("{:?}", &all[k..]),
                format!("{:?}", folded),
                case,
                src.len(),
            );
        }
        let mut seen = Vec::new();
        let mut it = tree.iter_variable_identifiers();
        for _ in 0..k {
            if let Some(s) = it.next() {
                seen.push(s.to_string());
            }
        }
        it.for_each(|s| seen.push(s.to_string()));
        if seen != expectations[1].1 {
            return fail(
                "C14/iter_variable_identifiers consumed by for_each after a partial advance differs",
                format!("{:?}", expectations[1].1),
                format!("{:?}", seen),
                case,
                src.len(),
            );
        }
        let last = tree.iter_identifiers().skip(k).last().map(|s| s.to_string());
        if last.as_ref() != all.last().filter(|_| k < all.len()) {
            return fail("C14/iter_identifiers().skip(k).last() differs", format!("{:?}", all.last()), format!("{:?}", last), case, src.len());
        }
        if tree.iter_identifiers().skip(k).count() != all.len() - k {
            return fail("C14/iter_identifiers().skip(k).count() differs", (all.len() - k).to_string(), "other".to_string(), case, src.len());
        }
        let nth = tree.iter_function_identifiers().nth(k).map(|s| s.to_string());
        if nth.as_ref() != expectations[4].1.get(k) {
            return fail("C14/iter_function_identifiers().nth(k) differs", format!("{:?}", expectations[4].1.get(k)), format!("{:?}", nth), case, src.len());
        }
    }
    // mutable variants: same sequence, and overwriting changes exactly those occurrences
    type MutIter = fn(&mut Tree) -> Vec<String>;
    let tag_all: Vec<(&str, fn(char) -> bool, MutIter)> = vec![
        ("iter_identifiers_mut", |_| true, |t| {
            let mut seen = Vec::new();
            for (i, id) in t.iter_identifiers_mut().enumerate() {
                seen.push(id.clone());
                *id = format!("#{}", i);
            }
            seen
        }),
        ("iter_variable_identifiers_mut", |c| c != 'c', |t| {
            let mut seen = Vec::new();
            for (i, id) in t.iter_variable_identifiers_mut().enumerate() {
                seen.push(id.clone());
                *id = format!("#{}", i);
            }
            seen
        }),
        ("iter_read_variable_identifiers_mut", |c| c == 'r', |t| {
            let mut seen = Vec::new();
            for (i, id) in t.iter_read_variable_identifiers_mut().enumerate() {
                seen.push(id.clone());
                *id = format!("#{}", i);
            }
            seen
        }),
        ("iter_write_variable_identifiers_mut", |c| c == 'w', |t| {
            let mut seen = Vec::new();
            for (i, id) in t.iter_write_variable_identifiers_mut().enumerate() {
                seen.push(id.clone());
                *id = format!("#{}", i);
            }
            seen
        }),
        ("iter_function_identifiers_mut", |c| c == 'c', |t| {
            let mut seen = Vec::new();
            for (i, id) in t.iter_function_identifiers_mut().enumerate() {
                seen.push(id.clone());
                *id = format!("#{}", i);
            }
            seen
        }),
    ];
    for (which, pred, run) in tag_all {
        let mut t = tree.clone();
        let seen = run(&mut t);
        let want: Vec<String> = occ.iter().filter(|(_, c)| pred(*c)).map(|(n, _)| n.clone()).collect();
        if seen != want {
            return fail(format!("C14/{} visits different occurrences", which), format!("{:?}", want), format!("{:?}", seen), case, src.len());
        }
        // after overwriting, the full identifier list shows tags exactly at those occurrences
        let mut k = 0;
        let want_after: Vec<String> = occ
            .iter()
            .map(|(n, c)| {
                if pred(*c) {
                    k += 1;
                    format!("#{}", k - 1)
                } else {
                    n.clone()
                }
            })
            .collect();
        let got_after = collect(t.iter_identifiers());
        if got_after != want_after {
            return fail(format!("C14/overwriting through {} changes other occurrences", which), format!("{:?}", want_after), format!("{:?}", got_after), case, src.len());
        }
    }
    // (ii) an unknown identifier reported by evaluation is listed by the matching iterator
    let log = new_log();
    let mut real = build_hashmap(ctx, &log);
    let r0: RR = match vcore::catch(|| map_result(&tree.eval_with_context_mut(&mut real))) {
        Ok(r) => r,
        Err(_) => {
            l.label("panic handed to C01");
            return Ok(());
        },
    };
    let log0 = take_log(&log);
    match &r0 {
        Err(RE::VarNotFound(n)) => {
            l.label("evaluation reports an unknown variable");
            if !collect(tree.iter_variable_identifiers()).contains(n) {
                return fail("C14/unknown variable not listed by iter_variable_identifiers", n.clone(), format!("{:?}", collect(tree.iter_variable_identifiers())), case, src.len());
            }
        },
        Err(RE::FnNotFound(n)) => {
            l.label("evaluation reports an unknown function");
            if !collect(tree.iter_function_identifiers()).contains(n) {
                return fail("C14/unknown function not listed by iter_function_identifiers", n.clone(), format!("{:?}", collect(tree.iter_function_identifiers())), case, src.len());
            }
        },
        _ => {},
    }
    // (iii) renaming variables through the mutable iterator and in the context commutes with
    // evaluation
    let mut renamed = tree.clone();
    for id in renamed.iter_variable_identifiers_mut() {
        *id = rename_var(id, perm);
    }
    let mut rctx = ctx.clone();
    rctx.vars = ctx.vars.iter().map(|(k, v)| (rename_var(k, perm), v.clone())).collect::<BTreeMap<_, _>>();
    let log2 = new_log();
    let mut real2 = build_hashmap(&rctx, &log2);
    let r1: RR = match vcore::catch(|| map_result(&renamed.eval_with_context_mut(&mut real2))) {
        Ok(r) => r,
        Err(_) => return Ok(()),
    };
    let log1 = take_log(&log2);
    let mapped: RR = match &r0 {
        Err(RE::VarNotFound(n)) => Err(RE::VarNotFound(rename_var(n, perm))),
        other => other.clone(),
    };
    let same = match (&mapped, &r1) {
        (Ok(a), Ok(b)) => a.same(b),
        (Err(a), Err(b)) => a.matches(b) && b.matches(a),
        _ => false,
    };
    l.label("renaming checked");
    if !same {
        return fail("C14/renaming variables changes the result", outcome_canon(&mapped), outcome_canon(&r1), case, src.len());
    }
    if !refmodel::interp::log_same(&log0, &log1) {
        return fail("C14/renaming variables changes the calls", refmodel::interp::log_describe(&log0), refmodel::interp::log_describe(&log1), case, src.len());
    }
    // final contexts equal up to the renaming
    let all: Vec<String> = VARS.iter().map(|s| s.to_string()).collect();
    let o0 = observe(&real, &all, &[]);
    let o1 = observe(&real2, &all.iter().map(|n| rename_var(n, perm)).collect::<Vec<_>>(), &[]);
    take_log(&log);
    take_log(&log2);
    let mut m0: Vec<(String, String)> = o0.listing.iter().map(|(k, v)| (rename_var(k, perm), v.canon())).collect();
    m0.sort();
    let mut m1: Vec<(String, String)> = o1.listing.iter().map(|(k, v)| (k.clone(), v.canon())).collect();
    m1.sort();
    if m0 != m1 {
        return fail("C14/renaming variables changes the final context", format!("{:?}", m0), format!("{:?}", m1), case, src.len());
    }
    Ok(())
}

fn arb_case(depth: u32) -> BoxedStrategy<Case> {
    let mut cfg = AstCfg::structural(depth);
    cfg.vars = AstCfg::names(&VARS);
    cfg.funcs = AstCfg::names(&FUNCS);
    (
        gen::arb_ast(&cfg),
        gen::arb_bits(),
        gen::arb_ctx(AstCfg::names(&VARS), AstCfg::names(&["f", "g"])),
        0u8..4,
        // force sequences / empty parentheses often
        proptest::option::weighted(0.4, (gen::arb_ast(&cfg), select(vec![0u8, 1, 2]))),
    )
        .prop_map(|(ast, bits, ctx, perm, extra)| {
            let ast = match extra {
                None => ast,
                Some((b, 0)) => Ast::Tuple(vec![ast, Ast::Call("f".into(), Box::new(Ast::Empty)), b]),
                Some((b, 1)) => Ast::Chain(vec![ast, Ast::Empty, b]),
                Some((b, _)) => Ast::Call("g".into(), Box::new(Ast::Tuple(vec![ast, b, Ast::Var("a".into())]))),
            };
            Case { ast, bits, ctx, perm }
        })
        .boxed()
}

/// Deeply nested trees (the quantifier says "arbitrary nesting"): nested parentheses, nested
/// two-argument calls, nested `v + (v * ( ... ))` groups, to depth 60.
fn arb_deep() -> BoxedStrategy<Case> {
    (1usize..60, 0u8..4, gen::arb_ctx(AstCfg::names(&VARS), AstCfg::names(&["f", "g"])), 0u8..4)
        .prop_map(|(n, kind, ctx, perm)| {
            let v = |i: usize| Ast::Var(VARS[i % VARS.len()].to_string());
            let mut e = v(0);
            for i in 0..n {
                e = match kind {
                    0 => Ast::Bin(refmodel::ast::BinOp::Add, Box::new(v(i)), Box::new(Ast::Bin(refmodel::ast::BinOp::Mul, Box::new(v(i + 1)), Box::new(e)))),
                    1 => Ast::Call("f".into(), Box::new(Ast::Tuple(vec![v(i), e]))),
                    2 => Ast::Tuple(vec![e, v(i)]),
                    _ => Ast::Chain(vec![Ast::Assign(refmodel::ast::AssignOp::Set, VARS[i % VARS.len()].to_string(), Box::new(e)), v(i + 1)]),
                };
            }
            // all-true bits: redundant parentheses everywhere add further depth
            Case { ast: e, bits: vec![kind % 2 == 0], ctx, perm }
        })
        .boxed()
}

pub fn run(rep: &Report) {
    rep.set_rule(
        "random well-formed ASTs (C02/C05 domain, identifiers from a small alphabet so names repeat, nested sequences, \
         empty parentheses, n-ary nodes, calls in calls; nesting to depth 60 and beyond with redundant parentheses) rendered with redundant parentheses; (i) the five immutable \
         iterators equal the occurrence list (pre-order = source order) computed from the generating AST and its \
         class-specific sub-sequences, the five mutable iterators visit the same occurrences and overwriting through \
         them changes exactly those; (ii) an unknown variable / function reported by evaluation is listed by the \
         matching iterator; (iii) renaming variables through iter_variable_identifiers_mut with an injective map and \
         binding the renamed names in the context gives the renamed result, the same calls and the renamed final \
         context. Non-trivial: the tree has a non-last child with grandchildren, an empty-parentheses node or an n-ary \
         sequence node, and >= 3 identifier occurrences of >= 2 classes.",
    );
    let fixed = ["a + b + c * f()", "d = a + f(b + c)", "(a, (b, c), f(g(x)), ()) ; x = a ; f x", "f(a, b)(", "a = b = c", "f g a , , b ; ; c"];
    let ctx = Ctx::new(refmodel::interp::Kind::HashMap);
    common::enumerate(rep, "fixed", fixed.len() as u64, 1, &|i, l| check_source(fixed[i as usize], &ctx, 1, None, l));
    let n = rep.tier.pick(300_000u64, 10_000_000);
    let depth = rep.tier.pick(5u32, 8);
    let n_deep = rep.tier.pick(6_000u64, 100_000);
    common::random_search(rep, "deep-trees", 141, n_deep, &arb_deep, &|c: &Case, l| {
        let toks = render_tokens(&c.ast, &mut BitChoices::new(&c.bits));
        let src = tok::render_spaced(&toks);
        l.label("deep tree");
        check_source(&src, &c.ctx, c.perm, Some(&c.ast), l)
    });
    common::random_search(rep, "random-trees", 140, n, &move || arb_case(depth), &|c: &Case, l| {
        let toks = render_tokens(&c.ast, &mut BitChoices::new(&c.bits));
        let src = tok::render_spaced(&toks);
        l.sample(3, || json!(vcore::clip(&src, 140)));
        check_source(&src, &c.ctx, c.perm, Some(&c.ast), l)?;
        // the same program written without spaces (when the reference tokenizer reads it back)
        let tight = tok::render_tight(&toks);
        match tok::lex(&tight) {
            Ok(o) if o.toks == toks && !o.d6 => {
                l.label("also written without spaces");
                l.evaluations += 1;
                check_source(&tight, &c.ctx, c.perm, Some(&c.ast), l)?;
            },
            _ => {},
        }
        // ... and with comments (non-ASCII text, line and block) between the tokens: the identifiers
        // of an expression do not depend on how its tokens are separated
        let commented: String = toks
            .iter()
            .enumerate()
            .map(|(i, t)| format!("{}{}", t.text(), if i % 3 == 0 { " /* ü → 日 */ " } else if i % 3 == 1 { " // zurück\n" } else { " " }))
            .collect();
        match tok::lex(&commented) {
            Ok(o) if o.toks == toks && !o.d6 => {
                l.label("also written with comments between the tokens");
                l.evaluations += 1;
                check_source(&commented, &c.ctx, c.perm, Some(&c.ast), l)
            },
            _ => Ok(()),
        }
    });
}

pub fn replay(case: &J, rep: &Report) {
    let mut l = Local::default();
    let src = case["src"].as_str().unwrap_or_else(|| common::bad_case("src"));
    let ctx = common::ctx_from_json(&case["ctx"]).unwrap_or_else(|| common::bad_case("ctx"));
    let perm = case["perm"].as_u64().unwrap_or(1) as u8;
    let r = check_source(src, &ctx, perm, None, &mut l);
    l.evaluations = 1;
    rep.merge(l);
    if let Err(f) = r {
        rep.fail("replay", &f.signature, f.case, f.expected, f.actual, f.size);
    }
}
