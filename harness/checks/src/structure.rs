//! Shared helpers for the structural properties (C02, C05, C13, C14): building, normalising,
//! comparing trees with the reference parse of a token sequence.

use adapt::{normalise, Err as RealErr, Tree};
use evalexpr::DefaultNumericTypes;
use refmodel::ast::Ast;
use refmodel::tok::{self, Tok};
use vcore::serde_json::{json, Value as J};
use vcore::PanicInfo;

use crate::common;

pub fn build(src: &str) -> Result<Result<Tree, RealErr>, PanicInfo> {
    vcore::catch(|| evalexpr::build_operator_tree::<DefaultNumericTypes>(src))
}

pub fn tokens_case(toks: &[Tok]) -> J {
    json!({"kind": "tokens", "src": tok::render_spaced(toks)})
}

pub fn tokens_from_case(j: &J) -> Vec<Tok> {
    let src = j["src"].as_str().unwrap_or_else(|| common::bad_case("src"));
    match tok::lex(src) {
        Ok(o) => o.toks,
        Err(e) => common::bad_case(&format!("tokens do not lex: {:?}", e)),
    }
}

/// Compare the tree built from `src` with the expected AST (already stripped of parentheses).
/// Returns a description of the mismatch.
pub fn compare_tree(src: &str, expected: &Ast) -> Result<(), (String, String)> {
    match build(src) {
        Err(p) => Err(("panic".into(), format!("panic: {} at {}", p.message, p.location))),
        Ok(Err(e)) => Err((format!("well-formed input rejected ({})", adapt::err_variant(&e)), format!("Err({:?})", e))),
        Ok(Ok(tree)) => {
            let got = normalise(&tree);
            if expected.matches_tree(&got) {
                Ok(())
            } else {
                Err(("different tree".into(), got.sexp()))
            }
        },
    }
}

/// Which pairs of operators are adjacent at one level? Used for the C02 pair-coverage matrix.
pub fn has_tok(toks: &[Tok], f: impl Fn(&Tok) -> bool) -> bool {
    toks.iter().any(f)
}

pub fn has_separator(toks: &[Tok]) -> bool {
    has_tok(toks, |t| matches!(t, Tok::Comma | Tok::Semi))
}
