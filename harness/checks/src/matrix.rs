//! Complete finite matrices shared by C01 / C03 / C10: builtin × argument shapes, operator × pool².

use std::sync::OnceLock;

use adapt::{from_rv, HCtx, Tree};
use evalexpr::{ContextWithMutableVariables, DefaultNumericTypes};
use refmodel::builtins::Unit;
use refmodel::pools;
use refmodel::value::RV;

/// All argument values of arity 0..3: Empty; every pool value; every ordered pair of pool values
/// as a 2-tuple; every ordered triple over the small pool as a 3-tuple.
pub fn builtin_args() -> &'static Vec<RV> {
    static ARGS: OnceLock<Vec<RV>> = OnceLock::new();
    ARGS.get_or_init(|| {
        let pool = pools::value_pool();
        let small = pools::small_pool();
        let mut v = Vec::new();
        v.push(RV::Empty);
        for a in &pool {
            // RV::Empty is in the pool as well; harmless duplicate
            v.push(a.clone());
        }
        for a in &pool {
            for b in &pool {
                v.push(RV::Tuple(vec![a.clone(), b.clone()]));
            }
        }
        for a in &small {
            for b in &small {
                for c in &small {
                    v.push(RV::Tuple(vec![a.clone(), b.clone(), c.clone()]));
                }
            }
        }
        v
    })
}

/// Arity of an argument value as seen by a builtin: Empty = 0, non-tuple = 1, tuple = its length.
pub fn arity(arg: &RV) -> usize {
    match arg {
        RV::Empty => 0,
        RV::Tuple(t) => t.len(),
        _ => 1,
    }
}

/// Type-shape signature of an argument: `int`, `(float,string)`, …
pub fn shape(arg: &RV) -> String {
    match arg {
        RV::Tuple(t) => format!("({})", t.iter().map(|e| e.tag().name()).collect::<Vec<_>>().join(",")),
        other => other.tag().name().to_string(),
    }
}

pub fn call_tree(name: &str) -> Tree {
    evalexpr::build_operator_tree::<DefaultNumericTypes>(&format!("{}(x)", name)).expect("builtin call tree must build")
}

/// Context with `x` bound to `arg`.
pub fn ctx_with_x(arg: &RV) -> HCtx {
    let mut c = HCtx::new();
    c.set_value("x".into(), from_rv(arg)).expect("fresh context");
    c
}

/// The indexing unit used by `len` (D11), observed once: `len("ä")`.
pub fn observe_unit() -> Result<Unit, String> {
    match evalexpr::eval("len(\"ä\")") {
        Ok(evalexpr::Value::Int(2)) => Ok(Unit::Bytes),
        Ok(evalexpr::Value::Int(1)) => Ok(Unit::Chars),
        other => Err(format!("len(\"ä\") = {:?}: neither bytes nor characters", other)),
    }
}

pub fn unit() -> Unit {
    static U: OnceLock<Unit> = OnceLock::new();
    *U.get_or_init(|| match observe_unit() {
        Ok(u) => u,
        Err(_) => Unit::Bytes,
    })
}
