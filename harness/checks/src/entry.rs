//! Uniform access to all 48 evaluation entry points (24 string-level, 24 tree-level).

use adapt::{to_rv, Err, Tree};
use evalexpr::{Context, ContextWithMutableVariables, DefaultNumericTypes};
use refmodel::value::RV;

#[derive(Clone, Copy, Debug, PartialEq, Eq, Hash)]
pub enum Ty {
    Untyped,
    String,
    Int,
    Float,
    Number,
    Boolean,
    Tuple,
    Empty,
}

impl Ty {
    pub const ALL: [Ty; 8] = [Ty::Untyped, Ty::String, Ty::Int, Ty::Float, Ty::Number, Ty::Boolean, Ty::Tuple, Ty::Empty];
    pub fn name(self) -> &'static str {
        match self {
            Ty::Untyped => "",
            Ty::String => "_string",
            Ty::Int => "_int",
            Ty::Float => "_float",
            Ty::Number => "_number",
            Ty::Boolean => "_boolean",
            Ty::Tuple => "_tuple",
            Ty::Empty => "_empty",
        }
    }
}

pub type Ep = Result<RV, Err>;

fn s(r: Result<String, Err>) -> Ep {
    r.map(RV::Str)
}
fn i(r: Result<i64, Err>) -> Ep {
    r.map(RV::Int)
}
fn f(r: Result<f64, Err>) -> Ep {
    r.map(RV::Float)
}
fn b(r: Result<bool, Err>) -> Ep {
    r.map(RV::Bool)
}
fn t(r: Result<Vec<adapt::Val>, Err>) -> Ep {
    r.map(|v| RV::Tuple(v.iter().map(to_rv).collect()))
}
fn e(r: Result<(), Err>) -> Ep {
    r.map(|_| RV::Empty)
}
fn u(r: Result<adapt::Val, Err>) -> Ep {
    r.map(|v| to_rv(&v))
}

/// String level, no context.
pub fn str_plain(ty: Ty, src: &str) -> Ep {
    match ty {
        Ty::Untyped => u(evalexpr::eval(src)),
        Ty::String => s(evalexpr::eval_string(src)),
        Ty::Int => i(evalexpr::eval_int(src)),
        Ty::Float => f(evalexpr::eval_float(src)),
        Ty::Number => f(evalexpr::eval_number(src)),
        Ty::Boolean => b(evalexpr::eval_boolean(src)),
        Ty::Tuple => t(evalexpr::eval_tuple(src)),
        Ty::Empty => e(evalexpr::eval_empty(src)),
    }
}

pub fn str_imm<C: Context<NumericTypes = DefaultNumericTypes>>(ty: Ty, src: &str, c: &C) -> Ep {
    match ty {
        Ty::Untyped => u(evalexpr::eval_with_context(src, c)),
        Ty::String => s(evalexpr::eval_string_with_context(src, c)),
        Ty::Int => i(evalexpr::eval_int_with_context(src, c)),
        Ty::Float => f(evalexpr::eval_float_with_context(src, c)),
        Ty::Number => f(evalexpr::eval_number_with_context(src, c)),
        Ty::Boolean => b(evalexpr::eval_boolean_with_context(src, c)),
        Ty::Tuple => t(evalexpr::eval_tuple_with_context(src, c)),
        Ty::Empty => e(evalexpr::eval_empty_with_context(src, c)),
    }
}

pub fn str_mut<C: ContextWithMutableVariables + Context<NumericTypes = DefaultNumericTypes>>(
    ty: Ty,
    src: &str,
    c: &mut C,
) -> Ep {
    match ty {
        Ty::Untyped => u(evalexpr::eval_with_context_mut(src, c)),
        Ty::String => s(evalexpr::eval_string_with_context_mut(src, c)),
        Ty::Int => i(evalexpr::eval_int_with_context_mut(src, c)),
        Ty::Float => f(evalexpr::eval_float_with_context_mut(src, c)),
        Ty::Number => f(evalexpr::eval_number_with_context_mut(src, c)),
        Ty::Boolean => b(evalexpr::eval_boolean_with_context_mut(src, c)),
        Ty::Tuple => t(evalexpr::eval_tuple_with_context_mut(src, c)),
        Ty::Empty => e(evalexpr::eval_empty_with_context_mut(src, c)),
    }
}

pub fn node_plain(ty: Ty, n: &Tree) -> Ep {
    match ty {
        Ty::Untyped => u(n.eval()),
        Ty::String => s(n.eval_string()),
        Ty::Int => i(n.eval_int()),
        Ty::Float => f(n.eval_float()),
        Ty::Number => f(n.eval_number()),
        Ty::Boolean => b(n.eval_boolean()),
        Ty::Tuple => t(n.eval_tuple()),
        Ty::Empty => e(n.eval_empty()),
    }
}

pub fn node_imm<C: Context<NumericTypes = DefaultNumericTypes>>(ty: Ty, n: &Tree, c: &C) -> Ep {
    match ty {
        Ty::Untyped => u(n.eval_with_context(c)),
        Ty::String => s(n.eval_string_with_context(c)),
        Ty::Int => i(n.eval_int_with_context(c)),
        Ty::Float => f(n.eval_float_with_context(c)),
        Ty::Number => f(n.eval_number_with_context(c)),
        Ty::Boolean => b(n.eval_boolean_with_context(c)),
        Ty::Tuple => t(n.eval_tuple_with_context(c)),
        Ty::Empty => e(n.eval_empty_with_context(c)),
    }
}

pub fn node_mut<C: ContextWithMutableVariables + Context<NumericTypes = DefaultNumericTypes>>(
    ty: Ty,
    n: &Tree,
    c: &mut C,
) -> Ep {
    match ty {
        Ty::Untyped => u(n.eval_with_context_mut(c)),
        Ty::String => s(n.eval_string_with_context_mut(c)),
        Ty::Int => i(n.eval_int_with_context_mut(c)),
        Ty::Float => f(n.eval_float_with_context_mut(c)),
        Ty::Number => f(n.eval_number_with_context_mut(c)),
        Ty::Boolean => b(n.eval_boolean_with_context_mut(c)),
        Ty::Tuple => t(n.eval_tuple_with_context_mut(c)),
        Ty::Empty => e(n.eval_empty_with_context_mut(c)),
    }
}

/// Equality of entry-point results: values bit-exact (NaN == NaN), errors by `PartialEq` of the
/// real error except that NaN payloads inside errors are compared through their Debug form.
pub fn ep_same(a: &Ep, b: &Ep) -> bool {
    match (a, b) {
        (Ok(x), Ok(y)) => x.same(y),
        // by Debug text (exact payloads, any NaN equals any NaN): the library's own PartialEq on errors
        // and values is part of what is being checked
        (Err(x), Err(y)) => format!("{:?}", x) == format!("{:?}", y),
        _ => false,
    }
}

pub fn ep_describe(a: &Ep) -> String {
    match a {
        Ok(v) => format!("Ok({})", v.canon()),
        Err(e) => format!("Err({:?})", e),
    }
}
