//! Generated programs: (source text, reference context) pairs from several generator families.

use proptest::prelude::*;
use refmodel::ast::{render_tokens, Ast, BitChoices, Minimal};
use refmodel::gen::{self, AstCfg};
use refmodel::interp::{Ctx, Kind};
use refmodel::tok::{self, Tok};
use vcore::serde_json::{json, Value as J};

use crate::common;

pub const VARS: [&str; 4] = ["a", "b", "c", "x"];
pub const FUNCS: [&str; 5] = ["f", "g", "h", "min", "str::from"];

pub fn names(v: &[&str]) -> Vec<String> {
    v.iter().map(|s| s.to_string()).collect()
}

#[derive(Clone, Debug)]
pub struct Program {
    pub family: &'static str,
    pub src: String,
    /// the generating AST when the program was rendered from one
    pub ast: Option<Ast>,
    pub ctx: Ctx,
}

impl Program {
    pub fn case_json(&self) -> J {
        json!({"kind": "program", "family": self.family, "src": self.src, "ctx": common::ctx_to_json(&self.ctx)})
    }
    pub fn from_json(j: &J) -> Option<Program> {
        Some(Program {
            family: "replay",
            src: j["src"].as_str()?.to_string(),
            ast: None,
            ctx: common::ctx_from_json(&j["ctx"])?,
        })
    }
}

/// Render tokens with a separator style: 0 = single spaces, 1 = tight (separators only where
/// tokens would fuse), 2 = double spaces and a trailing newline.
pub fn render_style(toks: &[Tok], style: u8) -> String {
    match style % 3 {
        0 => tok::render_spaced(toks),
        1 => tok::render_tight(toks),
        _ => {
            let mut s = tok::render_spaced(toks).replace(' ', "  ");
            s.push('\n');
            s
        },
    }
}

pub fn arb_ctx() -> BoxedStrategy<Ctx> {
    gen::arb_ctx(names(&VARS), names(&FUNCS))
}

/// ASTs rendered to source (inside the claimed domain).
pub fn arb_ast_program(cfg: AstCfg) -> BoxedStrategy<Program> {
    (gen::arb_ast(&cfg), gen::arb_bits(), any::<bool>(), 0u8..3, arb_ctx())
        .prop_map(|(ast, bits, minimal, style, ctx)| {
            let toks = if minimal { render_tokens(&ast, &mut Minimal) } else { render_tokens(&ast, &mut BitChoices::new(&bits)) };
            Program { family: "ast", src: render_style(&toks, style), ast: Some(ast), ctx }
        })
        .boxed()
}

pub fn arb_soup_program(max_len: usize) -> BoxedStrategy<Program> {
    (gen::arb_soup(max_len), 0u8..3, arb_ctx())
        .prop_map(|(toks, style, ctx)| Program { family: "soup", src: render_style(&toks, style), ast: None, ctx })
        .boxed()
}

pub fn arb_raw_program(max_atoms: usize) -> BoxedStrategy<Program> {
    (gen::arb_raw(max_atoms), arb_ctx()).prop_map(|(src, ctx)| Program { family: "raw", src, ast: None, ctx }).boxed()
}

/// A well-formed rendering with one planted defect: a token deleted, duplicated, or a
/// parenthesis added.
pub fn arb_planted_program(cfg: AstCfg) -> BoxedStrategy<Program> {
    (gen::arb_ast(&cfg), any::<u16>(), 0u8..4, arb_ctx())
        .prop_map(|(ast, pos, kind, ctx)| {
            let mut toks = render_tokens(&ast, &mut Minimal);
            if !toks.is_empty() {
                let i = (pos as usize * toks.len()) >> 16;
                match kind {
                    0 => {
                        toks.remove(i);
                    },
                    1 => {
                        let t = toks[i].clone();
                        toks.insert(i, t);
                    },
                    2 => toks.insert(i, Tok::LParen),
                    _ => toks.insert(i, Tok::RParen),
                }
            }
            Program { family: "planted", src: tok::render_spaced(&toks), ast: None, ctx }
        })
        .boxed()
}

// ---------------------------------------------------------------------------------------------
// type-directed programs: evaluate to a value most of the time
// ---------------------------------------------------------------------------------------------

#[derive(Clone, Copy, Debug, PartialEq)]
pub enum T {
    Int,
    Float,
    Bool,
    Str,
    Tuple,
    Empty,
}

/// Variables of the typed context: i, j: Int; p: Float; s: Str; t: Bool; u: Tuple.
pub fn typed_ctx() -> Ctx {
    use refmodel::interp::UF;
    use refmodel::value::RV;
    let mut c = Ctx::new(Kind::HashMap);
    c.vars.insert("i".into(), RV::Int(3));
    c.vars.insert("j".into(), RV::Int(-7));
    c.vars.insert("p".into(), RV::Float(2.5));
    c.vars.insert("s".into(), RV::Str("äb c".into()));
    c.vars.insert("t".into(), RV::Bool(true));
    c.vars.insert("u".into(), RV::Tuple(vec![RV::Int(1), RV::Str("x".into())]));
    c.funcs.insert("f".into(), UF::Identity);
    c.funcs.insert("g".into(), UF::IntPlus5);
    c
}

fn b(a: Ast) -> Box<Ast> {
    Box::new(a)
}

/// Choices for the typed builder come from a pre-generated tape (one proptest value), so that the
/// builder itself constructs no strategies and shrinking works on the tape.
pub struct Tape<'a> {
    data: &'a [u32],
    pos: usize,
}

impl<'a> Tape<'a> {
    pub fn new(data: &'a [u32]) -> Self {
        Tape { data, pos: 0 }
    }
    /// monotone index in 0..n (a smaller tape value gives a smaller index)
    fn pick(&mut self, n: usize) -> usize {
        let x = if self.data.is_empty() { 0 } else { self.data[self.pos % self.data.len()] };
        self.pos += 1;
        ((x as u64 * n as u64) >> 32) as usize
    }
    fn exhausted(&self) -> bool {
        self.pos >= self.data.len()
    }
}

const ALL_T: [T; 6] = [T::Int, T::Float, T::Bool, T::Str, T::Tuple, T::Empty];

fn typed_leaf(ty: T, t: &mut Tape) -> Ast {
    use refmodel::value::RV;
    match ty {
        T::Int => match t.pick(4) {
            0 => Ast::Var("i".into()),
            1 => Ast::Var("j".into()),
            _ => Ast::Lit(RV::Int(t.pick(100) as i64)),
        },
        T::Float => match t.pick(3) {
            0 => Ast::Var("p".into()),
            _ => Ast::Lit(RV::Float([0.5f64, 1.5, 2.0, 1e-3, 3e10][t.pick(5)])),
        },
        T::Bool => match t.pick(3) {
            0 => Ast::Var("t".into()),
            k => Ast::Lit(RV::Bool(k == 1)),
        },
        T::Str => match t.pick(3) {
            0 => Ast::Var("s".into()),
            _ => Ast::Lit(RV::Str(["", "a", "äb", "x y"][t.pick(4)].to_string())),
        },
        T::Tuple => Ast::Var("u".into()),
        T::Empty => Ast::Empty,
    }
}

/// An expression of static type `ty` over the typed context (assignments keep the variable's
/// type, so they succeed in a mutable context).
pub fn build_typed(ty: T, depth: u32, t: &mut Tape) -> Ast {
    use refmodel::ast::{AssignOp, BinOp};
    use refmodel::value::RV;
    if depth == 0 || t.exhausted() || t.pick(5) == 0 {
        return typed_leaf(ty, t);
    }
    let d = depth - 1;
    match ty {
        T::Int => match t.pick(14) {
            0..=3 => {
                let o = [BinOp::Add, BinOp::Sub, BinOp::Mul][t.pick(3)];
                Ast::Bin(o, b(build_typed(T::Int, d, t)), b(build_typed(T::Int, d, t)))
            },
            4 => Ast::Bin(BinOp::Div, b(build_typed(T::Int, d, t)), b(Ast::Lit(RV::Int(1 + t.pick(8) as i64)))),
            5 => Ast::Bin(BinOp::Mod, b(build_typed(T::Int, d, t)), b(Ast::Lit(RV::Int(1 + t.pick(8) as i64)))),
            6 => Ast::Neg(b(build_typed(T::Int, d, t))),
            7 => Ast::Call("len".into(), b(build_typed(T::Str, d, t))),
            8 => Ast::Call("math::abs".into(), b(build_typed(T::Int, d, t))),
            9 => Ast::Call("g".into(), b(build_typed(T::Int, d, t))),
            10 => Ast::Call(
                "if".into(),
                b(Ast::Tuple(vec![build_typed(T::Bool, d, t), build_typed(T::Int, d, t), build_typed(T::Int, d, t)])),
            ),
            11 => Ast::Call("min".into(), b(Ast::Tuple(vec![build_typed(T::Int, d, t), build_typed(T::Int, d, t)]))),
            _ => {
                let o = [AssignOp::Set, AssignOp::Add, AssignOp::Mul][t.pick(3)];
                Ast::Chain(vec![Ast::Assign(o, "i".into(), b(build_typed(T::Int, d, t))), Ast::Var("i".into())])
            },
        },
        T::Float => match t.pick(9) {
            0..=2 => {
                let o = [BinOp::Add, BinOp::Sub, BinOp::Mul, BinOp::Div, BinOp::Exp][t.pick(5)];
                Ast::Bin(o, b(build_typed(T::Float, d, t)), b(build_typed(T::Float, d, t)))
            },
            3 | 4 => Ast::Bin(BinOp::Add, b(build_typed(T::Int, d, t)), b(build_typed(T::Float, d, t))),
            5 => Ast::Bin(BinOp::Exp, b(build_typed(T::Int, d, t)), b(build_typed(T::Int, d, t))),
            6 => Ast::Call("math::sqrt".into(), b(build_typed(T::Float, d, t))),
            7 => Ast::Call("floor".into(), b(build_typed(T::Int, d, t))),
            _ => Ast::Chain(vec![Ast::Assign(AssignOp::Set, "p".into(), b(build_typed(T::Float, d, t))), Ast::Var("p".into())]),
        },
        T::Bool => match t.pick(9) {
            0..=2 => {
                let o = [BinOp::Lt, BinOp::Geq, BinOp::Eq, BinOp::Neq][t.pick(4)];
                Ast::Bin(o, b(build_typed(T::Int, d, t)), b(build_typed(T::Int, d, t)))
            },
            3 | 4 => {
                let o = [BinOp::And, BinOp::Or][t.pick(2)];
                Ast::Bin(o, b(build_typed(T::Bool, d, t)), b(build_typed(T::Bool, d, t)))
            },
            5 => Ast::Not(b(build_typed(T::Bool, d, t))),
            6 => Ast::Bin(BinOp::Leq, b(build_typed(T::Str, d, t)), b(build_typed(T::Str, d, t))),
            7 => Ast::Call("contains".into(), b(Ast::Tuple(vec![build_typed(T::Tuple, d, t), build_typed(T::Int, d, t)]))),
            _ => {
                let (t1, t2) = (ALL_T[t.pick(6)], ALL_T[t.pick(6)]);
                Ast::Bin(BinOp::Eq, b(build_typed(t1, d, t)), b(build_typed(t2, d, t)))
            },
        },
        T::Str => match t.pick(8) {
            0..=2 => Ast::Bin(BinOp::Add, b(build_typed(T::Str, d, t)), b(build_typed(T::Str, d, t))),
            3 | 4 => {
                let ty = ALL_T[t.pick(6)];
                Ast::Call("str::from".into(), b(build_typed(ty, d, t)))
            },
            5 => {
                let ty = ALL_T[t.pick(6)];
                Ast::Call("typeof".into(), b(build_typed(ty, d, t)))
            },
            6 => Ast::Call("str::to_uppercase".into(), b(build_typed(T::Str, d, t))),
            _ => Ast::Chain(vec![Ast::Assign(AssignOp::Add, "s".into(), b(build_typed(T::Str, d, t))), Ast::Var("s".into())]),
        },
        T::Tuple => match t.pick(4) {
            0..=2 => {
                let n = 2 + t.pick(2);
                Ast::Tuple((0..n).map(|_| { let ty = ALL_T[t.pick(6)]; build_typed(ty, d, t) }).collect())
            },
            _ => Ast::Call("f".into(), b(build_typed(T::Tuple, d, t))),
        },
        T::Empty => match t.pick(4) {
            0 | 1 => Ast::Assign(AssignOp::Set, "i".into(), b(build_typed(T::Int, d, t))),
            2 => Ast::Assign(AssignOp::And, "t".into(), b(build_typed(T::Bool, d, t))),
            _ => {
                let ty = ALL_T[t.pick(6)];
                Ast::Chain(vec![build_typed(ty, d, t), Ast::Empty])
            },
        },
    }
}

/// Typed programs rendered to source over the typed context (with small random perturbations of
/// the context so that not every run sees the same values).
pub fn arb_typed_program(depth: u32) -> BoxedStrategy<Program> {
    (
        0usize..6,
        proptest::collection::vec(any::<u32>(), 8..64),
        gen::arb_bits(),
        0u8..3,
        -5i64..50,
        any::<bool>(),
    )
        .prop_map(move |(ty, tape, bits, style, iv, without_f)| {
            let ast = build_typed(ALL_T[ty], depth, &mut Tape::new(&tape));
            let toks = render_tokens(&ast, &mut BitChoices::new(&bits));
            let mut ctx = typed_ctx();
            ctx.vars.insert("i".into(), refmodel::value::RV::Int(iv));
            if without_f {
                ctx.funcs.remove("f");
            }
            Program { family: "typed", src: render_style(&toks, style), ast: Some(ast), ctx }
        })
        .boxed()
}

/// The mixture used by C01 / C12 / C16.
pub fn arb_program(depth: u32) -> BoxedStrategy<Program> {
    let mut cfg = AstCfg::structural(depth);
    cfg.vars = names(&VARS);
    cfg.funcs = names(&["f", "g", "min", "str::from", "len", "math::abs", "str::substring", "shl", "typeof", "if"]);
    cfg.rich_literals = true;
    prop_oneof![
        4 => arb_ast_program(cfg.clone()),
        4 => arb_typed_program(depth.min(4)),
        2 => arb_soup_program(14),
        2 => arb_raw_program(12),
        1 => arb_planted_program(cfg),
    ]
    .boxed()
}

/// Fixed contexts for deterministic families.
pub fn plain_ctx() -> Ctx {
    Ctx::new(Kind::HashMap)
}
