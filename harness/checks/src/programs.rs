//! Generated programs: (source text, reference context) pairs from several generator families.

use proptest::prelude::*;
use refmodel::ast::{render_tokens, Ast, BitChoices, Minimal};
use refmodel::gen::{self, AstCfg};
use refmodel::interp::{Ctx, Kind};
use refmodel::tok::{self, Tok};
use vcore::serde_json::{json, Value as J};

use crate::common;

pub const VARS: [&str; 4] = ["a", "b", "c", "x"];
pub const FUNCS: [&str; 5] = ["f", "g", "h", "min", "str::from"];

pub fn names(v: &[&str]) -> Vec<String> {
    v.iter().map(|s| s.to_string()).collect()
}

#[derive(Clone, Debug)]
pub struct Program {
    pub family: &'static str,
    pub src: String,
    /// the generating AST when the program was rendered from one
    pub ast: Option<Ast>,
    pub ctx: Ctx,
}

impl Program {
    pub fn case_json(&self) -> J {
        json!({"kind": "program", "family": self.family, "src": self.src, "ctx": common::ctx_to_json(&self.ctx)})
    }
    pub fn from_json(j: &J) -> Option<Program> {
        Some(Program {
            family: "replay",
            src: j["src"].as_str()?.to_string(),
            ast: None,
            ctx: common::ctx_from_json(&j["ctx"])?,
        })
    }
}

/// Render tokens with a separator style: 0 = single spaces, 1 = tight (separators only where
/// tokens would fuse), 2 = double spaces and a trailing newline.
pub fn render_style(toks: &[Tok], style: u8) -> String {
    match style % 3 {
        0 => tok::render_spaced(toks),
        1 => tok::render_tight(toks),
        _ => {
            let mut s = tok::render_spaced(toks).replace(' ', "  ");
            s.push('\n');
            s
        },
    }
}

pub fn arb_ctx() -> BoxedStrategy<Ctx> {
    gen::arb_ctx(names(&VARS), names(&FUNCS))
}

/// ASTs rendered to source (inside the claimed domain).
pub fn arb_ast_program(cfg: AstCfg) -> BoxedStrategy<Program> {
    (gen::arb_ast(&cfg), gen::arb_bits(), any::<bool>(), 0u8..3, arb_ctx())
        .prop_map(|(ast, bits, minimal, style, ctx)| {
            let toks = if minimal { render_tokens(&ast, &mut Minimal) } else { render_tokens(&ast, &mut BitChoices::new(&bits)) };
            Program { family: "ast", src: render_style(&toks, style), ast: Some(ast), ctx }
        })
        .boxed()
}

pub fn arb_soup_program(max_len: usize) -> BoxedStrategy<Program> {
    (gen::arb_soup(max_len), 0u8..3, arb_ctx())
        .prop_map(|(toks, style, ctx)| Program { family: "soup", src: render_style(&toks, style), ast: None, ctx })
        .boxed()
}

pub fn arb_raw_program(max_atoms: usize) -> BoxedStrategy<Program> {
    (gen::arb_raw(max_atoms), arb_ctx()).prop_map(|(src, ctx)| Program { family: "raw", src, ast: None, ctx }).boxed()
}

/// A well-formed rendering with one planted defect: a token deleted, duplicated, or a
/// parenthesis added.
pub fn arb_planted_program(cfg: AstCfg) -> BoxedStrategy<Program> {
    (gen::arb_ast(&cfg), any::<u16>(), 0u8..4, arb_ctx())
        .prop_map(|(ast, pos, kind, ctx)| {
            let mut toks = render_tokens(&ast, &mut Minimal);
            if !toks.is_empty() {
                let i = (pos as usize * toks.len()) >> 16;
                match kind {
                    0 => {
                        toks.remove(i);
                    },
                    1 => {
                        let t = toks[i].clone();
                        toks.insert(i, t);
                    },
                    2 => toks.insert(i, Tok::LParen),
                    _ => toks.insert(i, Tok::RParen),
                }
            }
            Program { family: "planted", src: tok::render_spaced(&toks), ast: None, ctx }
        })
        .boxed()
}

// ---------------------------------------------------------------------------------------------
// type-directed programs: evaluate to a value most of the time
// ---------------------------------------------------------------------------------------------

#[derive(Clone, Copy, Debug, PartialEq)]
pub enum T {
    Int,
    Float,
    Bool,
    Str,
    Tuple,
    Empty,
}

/// Variables of the typed context: i, j: Int; p: Float; s: Str; t: Bool; u: Tuple.
pub fn typed_ctx() -> Ctx {
    use refmodel::interp::UF;
    use refmodel::value::RV;
    let mut c = Ctx::new(Kind::HashMap);
    c.vars.insert("i".into(), RV::Int(3));
    c.vars.insert("j".into(), RV::Int(-7));
    c.vars.insert("p".into(), RV::Float(2.5));
    c.vars.insert("s".into(), RV::Str("äb c".into()));
    c.vars.insert("t".into(), RV::Bool(true));
    c.vars.insert("u".into(), RV::Tuple(vec![RV::Int(1), RV::Str("x".into())]));
    c.funcs.insert("f".into(), UF::Identity);
    c.funcs.insert("g".into(), UF::IntPlus5);
    c
}

fn b(a: Ast) -> Box<Ast> {
    Box::new(a)
}

/// An expression of static type `ty` over the typed context (assignments keep the variable's
/// type, so they succeed in a mutable context).
pub fn arb_typed(ty: T, depth: u32) -> BoxedStrategy<Ast> {
    use refmodel::ast::{AssignOp, BinOp};
    use refmodel::value::RV;
    let leaf: BoxedStrategy<Ast> = match ty {
        T::Int => prop_oneof![(0i64..100).prop_map(|i| Ast::Lit(RV::Int(i))), Just(Ast::Var("i".into())), Just(Ast::Var("j".into()))].boxed(),
        T::Float => prop_oneof![
            proptest::sample::select(vec![0.5f64, 1.5, 2.0, 1e-3, 3e10]).prop_map(|f| Ast::Lit(RV::Float(f))),
            Just(Ast::Var("p".into()))
        ]
        .boxed(),
        T::Bool => prop_oneof![any::<bool>().prop_map(|x| Ast::Lit(RV::Bool(x))), Just(Ast::Var("t".into()))].boxed(),
        T::Str => prop_oneof![
            proptest::sample::select(vec!["", "a", "äb", "x y"]).prop_map(|x| Ast::Lit(RV::Str(x.to_string()))),
            Just(Ast::Var("s".into()))
        ]
        .boxed(),
        T::Tuple => Just(Ast::Var("u".into())).boxed(),
        T::Empty => Just(Ast::Empty).boxed(),
    };
    if depth == 0 {
        return leaf;
    }
    let d = depth - 1;
    let sub = move |t: T| arb_typed(t, d);
    let any_ty = || proptest::sample::select(vec![T::Int, T::Float, T::Bool, T::Str, T::Tuple, T::Empty]);
    let rec: BoxedStrategy<Ast> = match ty {
        T::Int => prop_oneof![
            4 => (proptest::sample::select(vec![BinOp::Add, BinOp::Sub, BinOp::Mul]), sub(T::Int), sub(T::Int)).prop_map(|(o, x, y)| Ast::Bin(o, b(x), b(y))),
            1 => (sub(T::Int), 1i64..9).prop_map(|(x, k)| Ast::Bin(BinOp::Div, b(x), b(Ast::Lit(RV::Int(k))))),
            1 => (sub(T::Int), 1i64..9).prop_map(|(x, k)| Ast::Bin(BinOp::Mod, b(x), b(Ast::Lit(RV::Int(k))))),
            1 => sub(T::Int).prop_map(|x| Ast::Neg(b(x))),
            1 => sub(T::Str).prop_map(|x| Ast::Call("len".into(), b(x))),
            1 => sub(T::Int).prop_map(|x| Ast::Call("math::abs".into(), b(x))),
            1 => sub(T::Int).prop_map(|x| Ast::Call("g".into(), b(x))),
            1 => (sub(T::Bool), sub(T::Int), sub(T::Int)).prop_map(|(c, x, y)| Ast::Call("if".into(), b(Ast::Tuple(vec![c, x, y])))),
            1 => (sub(T::Int), sub(T::Int)).prop_map(|(x, y)| Ast::Call("min".into(), b(Ast::Tuple(vec![x, y])))),
            2 => (proptest::sample::select(vec![AssignOp::Set, AssignOp::Add, AssignOp::Mul]), sub(T::Int))
                .prop_map(|(o, x)| Ast::Chain(vec![Ast::Assign(o, "i".into(), b(x)), Ast::Var("i".into())])),
        ]
        .boxed(),
        T::Float => prop_oneof![
            3 => (proptest::sample::select(vec![BinOp::Add, BinOp::Sub, BinOp::Mul, BinOp::Div, BinOp::Exp]), sub(T::Float), sub(T::Float))
                .prop_map(|(o, x, y)| Ast::Bin(o, b(x), b(y))),
            2 => (sub(T::Int), sub(T::Float)).prop_map(|(x, y)| Ast::Bin(BinOp::Add, b(x), b(y))),
            1 => (sub(T::Int), sub(T::Int)).prop_map(|(x, y)| Ast::Bin(BinOp::Exp, b(x), b(y))),
            1 => sub(T::Float).prop_map(|x| Ast::Call("math::sqrt".into(), b(x))),
            1 => sub(T::Int).prop_map(|x| Ast::Call("floor".into(), b(x))),
            1 => sub(T::Float).prop_map(|x| Ast::Chain(vec![Ast::Assign(AssignOp::Set, "p".into(), b(x)), Ast::Var("p".into())])),
        ]
        .boxed(),
        T::Bool => prop_oneof![
            3 => (proptest::sample::select(vec![BinOp::Lt, BinOp::Geq, BinOp::Eq, BinOp::Neq]), sub(T::Int), sub(T::Int)).prop_map(|(o, x, y)| Ast::Bin(o, b(x), b(y))),
            2 => (proptest::sample::select(vec![BinOp::And, BinOp::Or]), sub(T::Bool), sub(T::Bool)).prop_map(|(o, x, y)| Ast::Bin(o, b(x), b(y))),
            1 => sub(T::Bool).prop_map(|x| Ast::Not(b(x))),
            1 => (sub(T::Str), sub(T::Str)).prop_map(|(x, y)| Ast::Bin(BinOp::Leq, b(x), b(y))),
            1 => (sub(T::Tuple), sub(T::Int)).prop_map(|(x, y)| Ast::Call("contains".into(), b(Ast::Tuple(vec![x, y])))),
            1 => (any_ty(), any_ty()).prop_flat_map(move |(t1, t2)| (arb_typed(t1, d), arb_typed(t2, d))).prop_map(|(x, y)| Ast::Bin(BinOp::Eq, b(x), b(y))),
        ]
        .boxed(),
        T::Str => prop_oneof![
            3 => (sub(T::Str), sub(T::Str)).prop_map(|(x, y)| Ast::Bin(BinOp::Add, b(x), b(y))),
            2 => any_ty().prop_flat_map(move |t| arb_typed(t, d)).prop_map(|x| Ast::Call("str::from".into(), b(x))),
            1 => any_ty().prop_flat_map(move |t| arb_typed(t, d)).prop_map(|x| Ast::Call("typeof".into(), b(x))),
            1 => sub(T::Str).prop_map(|x| Ast::Call("str::to_uppercase".into(), b(x))),
            1 => sub(T::Str).prop_map(|x| Ast::Chain(vec![Ast::Assign(AssignOp::Add, "s".into(), b(x)), Ast::Var("s".into())])),
        ]
        .boxed(),
        T::Tuple => prop_oneof![
            3 => proptest::collection::vec(any_ty().prop_flat_map(move |t| arb_typed(t, d)), 2..4).prop_map(Ast::Tuple),
            1 => sub(T::Tuple).prop_map(|x| Ast::Call("f".into(), b(x))),
        ]
        .boxed(),
        T::Empty => prop_oneof![
            2 => (sub(T::Int)).prop_map(|x| Ast::Assign(AssignOp::Set, "i".into(), b(x))),
            1 => (sub(T::Bool)).prop_map(|x| Ast::Assign(AssignOp::And, "t".into(), b(x))),
            1 => any_ty().prop_flat_map(move |t| arb_typed(t, d)).prop_map(|x| Ast::Chain(vec![x, Ast::Empty])),
        ]
        .boxed(),
    };
    prop_oneof![1 => leaf, 4 => rec].boxed()
}

/// Typed programs rendered to source over the typed context (with small random perturbations of
/// the context so that not every run sees the same values).
pub fn arb_typed_program(depth: u32) -> BoxedStrategy<Program> {
    (
        proptest::sample::select(vec![T::Int, T::Float, T::Bool, T::Str, T::Tuple, T::Empty]),
        gen::arb_bits(),
        0u8..3,
        -5i64..50,
        any::<bool>(),
    )
        .prop_flat_map(move |(ty, bits, style, iv, disabled_f)| {
            arb_typed(ty, depth).prop_map(move |ast| {
                let toks = render_tokens(&ast, &mut BitChoices::new(&bits));
                let mut ctx = typed_ctx();
                ctx.vars.insert("i".into(), refmodel::value::RV::Int(iv));
                if disabled_f {
                    ctx.funcs.remove("f");
                }
                Program { family: "typed", src: render_style(&toks, style), ast: Some(ast), ctx }
            })
        })
        .boxed()
}

/// The mixture used by C01 / C12 / C16.
pub fn arb_program(depth: u32) -> BoxedStrategy<Program> {
    let mut cfg = AstCfg::structural(depth);
    cfg.vars = names(&VARS);
    cfg.funcs = names(&["f", "g", "min", "str::from", "len", "math::abs", "str::substring", "shl", "typeof", "if"]);
    cfg.rich_literals = true;
    prop_oneof![
        4 => arb_ast_program(cfg.clone()),
        4 => arb_typed_program(depth.min(4)),
        2 => arb_soup_program(14),
        2 => arb_raw_program(12),
        1 => arb_planted_program(cfg),
    ]
    .boxed()
}

/// Fixed contexts for deterministic families.
pub fn plain_ctx() -> Ctx {
    Ctx::new(Kind::HashMap)
}
