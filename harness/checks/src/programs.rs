//! Generated programs: (source text, reference context) pairs from several generator families.

use proptest::prelude::*;
use refmodel::ast::{render_tokens, Ast, BitChoices, Minimal};
use refmodel::gen::{self, AstCfg};
use refmodel::interp::{Ctx, Kind};
use refmodel::tok::{self, Tok};
use vcore::serde_json::{json, Value as J};

use crate::common;

pub const VARS: [&str; 4] = ["a", "b", "c", "x"];
pub const FUNCS: [&str; 5] = ["f", "g", "h", "min", "str::from"];

pub fn names(v: &[&str]) -> Vec<String> {
    v.iter().map(|s| s.to_string()).collect()
}

#[derive(Clone, Debug)]
pub struct Program {
    pub family: &'static str,
    pub src: String,
    /// the generating AST when the program was rendered from one
    pub ast: Option<Ast>,
    pub ctx: Ctx,
}

impl Program {
    pub fn case_json(&self) -> J {
        json!({"kind": "program", "family": self.family, "src": self.src, "ctx": common::ctx_to_json(&self.ctx)})
    }
    pub fn from_json(j: &J) -> Option<Program> {
        Some(Program {
            family: "replay",
            src: j["src"].as_str()?.to_string(),
            ast: None,
            ctx: common::ctx_from_json(&j["ctx"])?,
        })
    }
}

/// Render tokens with a separator style: 0 = single spaces, 1 = tight (separators only where
/// tokens would fuse), 2 = double spaces and a trailing newline.
pub fn render_style(toks: &[Tok], style: u8) -> String {
    match style % 3 {
        0 => tok::render_spaced(toks),
        1 => tok::render_tight(toks),
        _ => {
            let mut s = tok::render_spaced(toks).replace(' ', "  ");
            s.push('\n');
            s
        },
    }
}

pub fn arb_ctx() -> BoxedStrategy<Ctx> {
    gen::arb_ctx(names(&VARS), names(&FUNCS))
}

/// ASTs rendered to source (inside the claimed domain).
pub fn arb_ast_program(cfg: AstCfg) -> BoxedStrategy<Program> {
    (gen::arb_ast(&cfg), gen::arb_bits(), any::<bool>(), 0u8..3, arb_ctx())
        .prop_map(|(ast, bits, minimal, style, ctx)| {
            let toks = if minimal { render_tokens(&ast, &mut Minimal) } else { render_tokens(&ast, &mut BitChoices::new(&bits)) };
            Program { family: "ast", src: render_style(&toks, style), ast: Some(ast), ctx }
        })
        .boxed()
}

pub fn arb_soup_program(max_len: usize) -> BoxedStrategy<Program> {
    (gen::arb_soup(max_len), 0u8..3, arb_ctx())
        .prop_map(|(toks, style, ctx)| Program { family: "soup", src: render_style(&toks, style), ast: None, ctx })
        .boxed()
}

pub fn arb_raw_program(max_atoms: usize) -> BoxedStrategy<Program> {
    (gen::arb_raw(max_atoms), arb_ctx()).prop_map(|(src, ctx)| Program { family: "raw", src, ast: None, ctx }).boxed()
}

/// A well-formed rendering with one planted defect: a token deleted, duplicated, or a
/// parenthesis added.
pub fn arb_planted_program(cfg: AstCfg) -> BoxedStrategy<Program> {
    (gen::arb_ast(&cfg), any::<u16>(), 0u8..4, arb_ctx())
        .prop_map(|(ast, pos, kind, ctx)| {
            let mut toks = render_tokens(&ast, &mut Minimal);
            if !toks.is_empty() {
                let i = (pos as usize * toks.len()) >> 16;
                match kind {
                    0 => {
                        toks.remove(i);
                    },
                    1 => {
                        let t = toks[i].clone();
                        toks.insert(i, t);
                    },
                    2 => toks.insert(i, Tok::LParen),
                    _ => toks.insert(i, Tok::RParen),
                }
            }
            Program { family: "planted", src: tok::render_spaced(&toks), ast: None, ctx }
        })
        .boxed()
}

/// The mixture used by C01 / C12 / C16.
pub fn arb_program(depth: u32) -> BoxedStrategy<Program> {
    let mut cfg = AstCfg::structural(depth);
    cfg.vars = names(&VARS);
    cfg.funcs = names(&["f", "g", "min", "str::from", "len", "math::abs", "str::substring", "shl", "typeof", "if"]);
    cfg.rich_literals = true;
    prop_oneof![
        5 => arb_ast_program(cfg.clone()),
        2 => arb_soup_program(14),
        2 => arb_raw_program(12),
        1 => arb_planted_program(cfg),
    ]
    .boxed()
}

/// Fixed contexts for deterministic families.
pub fn plain_ctx() -> Ctx {
    Ctx::new(Kind::HashMap)
}
