//! C09 — function resolution: call forms, shadowing and the builtin switch.

use adapt::{build_real, map_result, new_log, take_log, Real};
use evalexpr::{Context, DefaultNumericTypes, EmptyContext, EmptyContextWithBuiltinFunctions};
use refmodel::builtins::{is_builtin, BUILTINS};
use refmodel::interp::{log_describe, log_same, run_full, Ctx, Kind, UF};
use refmodel::tok;
use refmodel::value::{outcome_canon, outcome_matches, RV};
use vcore::serde_json::{json, Value as J};
use vcore::{Local, Report};

use crate::common::{self, fail, Outcome};
use crate::matrix;

/// Signature of the known finding (known_findings.json).
pub const KNOWN_NOTFOUND_CONFLATION: &str =
    "C09/a context function that itself fails with FunctionIdentifierNotFound is treated as if it were not defined";

const EXTRA_NAMES: [&str; 5] = ["foo", "f1", "math::nope", "str::x", "ä"];

fn all_names() -> Vec<String> {
    // plus long identifiers (lengths around 64 / 128 / 256 bytes)
    let long = [31usize, 32, 63, 64, 65, 127, 128, 129, 255, 256, 300].iter().map(|n| format!("f{}", "n".repeat(n - 1)));
    BUILTINS.iter().map(|s| s.to_string()).chain(EXTRA_NAMES.iter().map(|s| s.to_string())).chain(long).collect()
}

/// Argument menu: (source text, is-variable)
const ARGS: [&str; 7] = ["3", "2.5", "\"s\"", "true", "v", "w1", "w0"];

#[derive(Clone, Copy, Debug, PartialEq)]
enum Stage {
    AsBuilt,
    AfterClone,
    /// `dst.clone_from(&src)` into an existing context whose switch is the opposite
    AfterCloneFrom,
    /// a clone is kept alive while `clear_functions` runs on the original
    ClearFunctionsWhileCloneAlive,
    /// the original is kept alive while `clear` runs on the clone
    ClearCloneWhileOriginalAlive,
    AfterClearFunctions,
    AfterClear,
    ToggledTwice,
}
const STAGES: [Stage; 8] = [
    Stage::AsBuilt,
    Stage::AfterClone,
    Stage::AfterClearFunctions,
    Stage::AfterClear,
    Stage::ToggledTwice,
    Stage::AfterCloneFrom,
    Stage::ClearFunctionsWhileCloneAlive,
    Stage::ClearCloneWhileOriginalAlive,
];

#[derive(Clone, Debug)]
pub struct Config {
    name: String,
    kind: Kind,
    disabled: bool,
    user_fn: bool,
    /// which behaviour the user function has (0 = records and returns (1, arg); 1 = fails with
    /// FunctionIdentifierNotFound(its own name); 2 = fails with FunctionIdentifierNotFound("max");
    /// 3..=6 = fails with WrongFunctionArgumentAmount / ExpectedFixedLengthTuple / DivisionError /
    /// VariableIdentifierNotFound)
    uf_kind: u8,
    variable: bool,
    stage: usize,
}

impl Config {
    fn to_json(&self, src: &str) -> J {
        json!({"kind": "resolution", "name": self.name, "ctx_kind": format!("{:?}", self.kind), "disabled": self.disabled,
               "user_fn": self.user_fn, "uf_kind": self.uf_kind, "variable": self.variable, "stage": self.stage, "src": src})
    }
    fn from_json(j: &J) -> Option<(Config, String)> {
        let kind = match j["ctx_kind"].as_str()? {
            "HashMap" => Kind::HashMap,
            "Empty" => Kind::Empty,
            "EmptyWithBuiltins" => Kind::EmptyWithBuiltins,
            _ => return None,
        };
        Some((
            Config {
                name: j["name"].as_str()?.to_string(),
                kind,
                disabled: j["disabled"].as_bool()?,
                user_fn: j["user_fn"].as_bool()?,
                uf_kind: j["uf_kind"].as_u64().unwrap_or(0) as u8,
                variable: j["variable"].as_bool()?,
                stage: j["stage"].as_u64()? as usize,
            },
            j["src"].as_str()?.to_string(),
        ))
    }
    /// The model context *after* the stage operation, and how to build the real one.
    fn model(&self) -> Ctx {
        let mut c = Ctx::new(self.kind);
        if self.kind == Kind::HashMap {
            c.builtins_disabled = self.disabled;
            c.vars.insert("v".into(), RV::Int(7));
            // tuples the syntax cannot write: one element, no element
            c.vars.insert("w1".into(), RV::Tuple(vec![RV::Int(7)]));
            c.vars.insert("w0".into(), RV::Tuple(vec![]));
            c.funcs.insert("m".into(), UF::Tag(9));
            if self.user_fn {
                let f = match self.uf_kind {
                    0 => UF::Tag(1),
                    1 => UF::NotFound(self.name.clone()),
                    2 => UF::NotFound("max".into()),
                    // typed library errors a builtin of the same name could raise as well: the
                    // context function's own error comes back, nothing falls through to the builtin
                    k => UF::Raise(k - 3),
                };
                c.funcs.insert(self.name.clone(), f);
            }
            if self.variable {
                c.vars.insert(self.name.clone(), RV::Int(41));
            }
        }
        c
    }
}

fn sources(n: &str) -> Vec<(String, bool)> {
    // (source, is a call form)
    let mut v = Vec::new();
    for x in ARGS {
        v.push((format!("{}({})", n, x), true));
        v.push((format!("{} {}", n, x), true));
        v.push((format!("{}({}, 2)", n, x), true));
        v.push((format!("{}({}, 2, 3)", n, x), true));
        v.push((format!("{}(true, {}, 2)", n, x), true));
        v.push((format!("m {} {}", n, x), true));
        v.push((format!("{} m {}", n, x), true));
    }
    v.push((format!("{}()", n), true));
    v.push((format!("{} ()", n), true));
    v.push((n.to_string(), false));
    v.push((format!("{} + 1", n), false));
    v.push((format!("{} - 1", n), false));
    v.push((format!("{}, 1", n), false));
    v.push((format!("{}; {}(1)", n, n), true));
    v
}

/// Apply the stage to the real context (already built as described by `before`) and to the model.
fn apply_stage(real: Real, model: &mut Ctx, stage: Stage) -> Result<Real, String> {
    let mut h = match real {
        Real::HashMap(h) => h,
        other => return Ok(other),
    };
    match stage {
        Stage::AsBuilt => {},
        Stage::AfterClone => {
            let c = h.clone();
            // the original is dropped: resolution must not depend on it
            h = c;
        },
        Stage::AfterCloneFrom => {
            use evalexpr::{ContextWithMutableFunctions, ContextWithMutableVariables};
            let mut dst = adapt::HCtx::new();
            let d = h.are_builtin_functions_disabled();
            dst.set_builtin_functions_disabled(!d).map_err(|e| format!("{:?}", e))?;
            dst.set_value("stale".into(), evalexpr::Value::Int(1)).map_err(|e| format!("{:?}", e))?;
            dst.set_function("stale_fn".into(), evalexpr::Function::new(|v| Ok(v.clone()))).map_err(|e| format!("{:?}", e))?;
            dst.clone_from(&h);
            h = dst;
        },
        Stage::ClearFunctionsWhileCloneAlive => {
            let keep = h.clone();
            h.clear_functions();
            model.clear_functions();
            // the clone is alive while the original is cleared
            drop(keep);
        },
        Stage::ClearCloneWhileOriginalAlive => {
            let original = h.clone();
            let mut c = original.clone();
            c.clear();
            model.clear();
            drop(original);
            h = c;
        },
        Stage::AfterClearFunctions => {
            h.clear_functions();
            model.clear_functions();
        },
        Stage::AfterClear => {
            h.clear();
            model.clear();
        },
        Stage::ToggledTwice => {
            let d = h.are_builtin_functions_disabled();
            h.set_builtin_functions_disabled(!d).map_err(|e| format!("{:?}", e))?;
            h.set_builtin_functions_disabled(d).map_err(|e| format!("{:?}", e))?;
            let _ = model.set_builtins_disabled(!d);
            let _ = model.set_builtins_disabled(d);
        },
    }
    Ok(Real::HashMap(h))
}

pub fn check(cfg: &Config, src: &str, is_call: bool, l: &mut Local) -> Outcome {
    let case = cfg.to_json(src);
    let toks = tok::lex(src).expect("resolution source lexes").toks;
    let ast = match refmodel::parse::classify(&toks) {
        refmodel::parse::Class::WellFormed(a) => a.strip_parens(),
        other => {
            return fail("HARNESS/C09: resolution source not well-formed", "well-formed", format!("{:?}", other), case, src.len());
        },
    };
    let mut model = cfg.model();
    let log = new_log();
    let real = build_real(&model, &log);
    let real = match apply_stage(real, &mut model, STAGES[cfg.stage]) {
        Ok(r) => r,
        Err(e) => return fail("C09/toggling the builtin switch of a HashMapContext failed", "Ok", e, case, src.len()),
    };
    // flag must survive clone and be reported
    if let Real::HashMap(h) = &real {
        if h.are_builtin_functions_disabled() != model.builtins_disabled {
            return fail(
                "C09/builtin switch not preserved",
                model.builtins_disabled.to_string(),
                h.are_builtin_functions_disabled().to_string(),
                case,
                src.len(),
            );
        }
    }
    let exp = run_full(&ast, &mut model.clone(), false, matrix::unit());
    if let Err(e) = &exp.result {
        if e.is_unclaimed() {
            l.label("unclaimed builtin result (D11)");
            return Ok(());
        }
    }
    let got = match vcore::catch(|| map_result(&real.eval_str_imm(src))) {
        Ok(g) => g,
        Err(p) => return fail(format!("C09/panic {}", p.signature()), outcome_canon(&exp.result), p.message, case, src.len()),
    };
    let got_log = take_log(&log);
    // two candidate resolutions exist?
    let builtin_name = is_builtin(&cfg.name);
    let candidates = (cfg.user_fn as u8) + (builtin_name as u8) + (cfg.variable as u8) + ((cfg.disabled && builtin_name) as u8);
    if candidates >= 2 {
        l.label("two candidate resolutions");
        l.nontrivial_direct += 1;
    }
    if is_call {
        l.label("call form");
    } else {
        l.label("variable form");
    }
    let who = if model.funcs.contains_key(&cfg.name) {
        "a user function is defined"
    } else if builtin_name && !model.builtins_disabled {
        "builtin enabled, no user function"
    } else if builtin_name {
        "builtin disabled, no user function"
    } else {
        "unknown name"
    };
    if !outcome_matches(&exp.result, &got) {
        if cfg.user_fn && (cfg.uf_kind == 1 || cfg.uf_kind == 2) && model.funcs.contains_key(&cfg.name) {
            // The user function itself fails with FunctionIdentifierNotFound(..): its error must
            // come back unchanged. Root-cause key: does the implementation behave exactly as if the
            // function were not defined at all (builtin fallback / unknown function)?
            let mut undefined = model.clone();
            undefined.funcs.remove(&cfg.name);
            let as_if_undefined = run_full(&ast, &mut undefined, false, matrix::unit());
            let sig = if outcome_matches(&as_if_undefined.result, &got) {
                KNOWN_NOTFOUND_CONFLATION.to_string()
            } else {
                "C09/a context function failing with FunctionIdentifierNotFound: neither its error nor the not-defined behaviour".to_string()
            };
            return fail(sig, outcome_canon(&exp.result), outcome_canon(&got), case, src.len());
        }
        return fail(
            format!("C09/wrong resolution ({}; {})", who, if is_call { "call form" } else { "variable form" }),
            outcome_canon(&exp.result),
            outcome_canon(&got),
            case,
            src.len(),
        );
    }
    if !log_same(&exp.log, &got_log) {
        return fail(
            format!("C09/wrong callee or argument shape ({})", who),
            log_describe(&exp.log),
            log_describe(&got_log),
            case,
            src.len(),
        );
    }
    Ok(())
}

// ---------------------------------------------------------------------------------------------
// random programs over names that live in both namespaces
// ---------------------------------------------------------------------------------------------

/// Names used both as variables and as functions; most are builtins, so that every call has up to
/// three candidate resolutions (context function, builtin, nothing) and a same-named variable.
const SHARED: [&str; 10] = ["f", "g", "min", "len", "typeof", "if", "max", "str::from", "math::abs", "floor"];

#[derive(Clone, Debug)]
pub struct Prog {
    ast: refmodel::ast::Ast,
    bits: Vec<bool>,
    style: u8,
    ctx: Ctx,
}

fn arb_prog(depth: u32) -> proptest::strategy::BoxedStrategy<Prog> {
    use proptest::prelude::*;
    let names: Vec<String> = SHARED.iter().map(|s| s.to_string()).collect();
    let mut cfg = refmodel::gen::AstCfg::structural(depth);
    cfg.vars = names.clone();
    cfg.funcs = names.clone();
    let wraps = proptest::collection::vec((0usize..SHARED.len(), any::<bool>()), 0..3);
    (refmodel::gen::arb_ast(&cfg), wraps, refmodel::gen::arb_bits(), 0u8..2, refmodel::gen::arb_ctx(names.clone(), names), any::<bool>())
        .prop_map(|(mut ast, wraps, bits, style, mut ctx, disabled)| {
            // call chains around the generated expression: `f g e`, `f(g(e), e)`
            for (i, pair) in wraps {
                let arg = if pair { refmodel::ast::Ast::Tuple(vec![ast.clone(), ast]) } else { ast };
                ast = refmodel::ast::Ast::Call(SHARED[i].to_string(), Box::new(arg));
            }
            ctx.builtins_disabled = disabled;
            // the known finding is keyed in the matrix; keep it out of this family by construction
            let not_found: Vec<String> = ctx.funcs.iter().filter(|(_, f)| matches!(f, UF::NotFound(_))).map(|(k, _)| k.clone()).collect();
            for k in not_found {
                ctx.funcs.insert(k, UF::Tag(4));
            }
            Prog { ast, bits, style, ctx }
        })
        .boxed()
}

fn count_contested(a: &refmodel::ast::Ast, ctx: &Ctx, calls: &mut usize, contested: &mut usize) {
    use refmodel::ast::Ast::*;
    match a {
        Lit(_) | Var(_) | Empty | Opaque(_) | Malformed(_) => {},
        Call(n, x) => {
            *calls += 1;
            let c = ctx.funcs.contains_key(n) as u8 + is_builtin(n) as u8 + ctx.vars.contains_key(n) as u8;
            if c >= 2 {
                *contested += 1;
            }
            count_contested(x, ctx, calls, contested);
        },
        Neg(x) | Not(x) | Paren(x) | Assign(_, _, x) => count_contested(x, ctx, calls, contested),
        Bin(_, l, r) => {
            count_contested(l, ctx, calls, contested);
            count_contested(r, ctx, calls, contested);
        },
        Tuple(v) | Chain(v) => v.iter().for_each(|x| count_contested(x, ctx, calls, contested)),
    }
}

fn check_prog(p: &Prog, l: &mut Local) -> Outcome {
    let toks = refmodel::ast::render_tokens(&p.ast, &mut refmodel::ast::BitChoices::new(&p.bits));
    let src = crate::programs::render_style(&toks, p.style);
    let (mut calls, mut contested) = (0, 0);
    count_contested(&p.ast, &p.ctx, &mut calls, &mut contested);
    if calls >= 1 {
        l.label("random program with a call");
    }
    if contested >= 1 {
        l.label("random program: a called name has two or more candidates (context function / builtin / variable)");
        l.nontrivial_key(&src);
    }
    if p.ctx.builtins_disabled {
        l.label("random program: builtins disabled");
    }
    crate::c08::check_source_with("C09", &src, &p.ctx, Some(&p.ast), &SHARED, false, l)
}

fn configs() -> Vec<Config> {
    let mut v = Vec::new();
    for name in all_names() {
        for disabled in [false, true] {
            for (user_fn, uf_kind) in [(false, 0u8), (true, 0), (true, 1), (true, 2), (true, 3), (true, 4), (true, 5), (true, 6)] {
                for variable in [false, true] {
                    for stage in 0..STAGES.len() {
                        v.push(Config { name: name.clone(), kind: Kind::HashMap, disabled, user_fn, uf_kind, variable, stage });
                    }
                }
            }
        }
        v.push(Config { name: name.clone(), kind: Kind::Empty, disabled: true, user_fn: false, uf_kind: 0, variable: false, stage: 0 });
        v.push(Config { name: name.clone(), kind: Kind::EmptyWithBuiltins, disabled: false, user_fn: false, uf_kind: 0, variable: false, stage: 0 });
    }
    v
}

/// Toggling on the two empty contexts is refused in the documented direction only.
fn check_empty_toggles() -> Outcome {
    let mut e = EmptyContext::<DefaultNumericTypes>::default();
    let mut b = EmptyContextWithBuiltinFunctions::<DefaultNumericTypes>::default();
    let r = (
        e.are_builtin_functions_disabled(),
        e.set_builtin_functions_disabled(true).is_ok(),
        e.set_builtin_functions_disabled(false).is_ok(),
        e.are_builtin_functions_disabled(),
        b.are_builtin_functions_disabled(),
        b.set_builtin_functions_disabled(false).is_ok(),
        b.set_builtin_functions_disabled(true).is_ok(),
        b.are_builtin_functions_disabled(),
    );
    let expected = (true, true, false, true, false, true, false, false);
    if r != expected {
        return fail(
            "C09/empty contexts: builtin switch",
            format!("{:?}", expected),
            format!("{:?}", r),
            json!({"kind": "empty-toggles"}),
            0,
        );
    }
    Ok(())
}

pub fn run(rep: &Report) {
    rep.set_rule(
        "complete configuration matrix: 49 builtin names + 5 non-builtin names + 11 long identifiers (31..300 bytes) x {HashMapContext switch off/on x user \
         function named n present/absent x variable named n present/absent x (as built, after clone, after \
         clear_functions, after clear, switch toggled twice, after clone_from into a context with the opposite switch, clear_functions / clear while another copy is alive), user function either recording or itself failing with FunctionIdentifierNotFound or with a typed library error (WrongFunctionArgumentAmount, ExpectedFixedLengthTuple, DivisionError, VariableIdentifierNotFound) that must come back instead of a fall-through to the builtin, EmptyContext, EmptyContextWithBuiltinFunctions} x call \
         forms n(x), n x, n(x, 2), n(x, 2, 3), n(true, x, 2), m n x, n m x, n(), n (), `n; n(1)` and variable forms n, n + 1, n - 1, `n, 1` with x \
         from {int, float, string, bool, variable, one-element tuple variable, empty tuple variable}; oracle: the reference interpreter's resolution rule (context \
         function first, builtin only if none and not disabled, else FunctionIdentifierNotFound(n) exactly; variables \
         in a separate namespace) with the recording functions' call log (callee and exact argument shape). \
         Non-trivial: configurations with two candidate resolutions. Beyond the matrix: random programs (nested and \
         juxtaposed calls, assignments to and reads of variables named like functions, tuples, chains, operators) over \
         10 names that are used both as variables and as functions (8 of them builtins), in random HashMapContexts \
         (each name independently bound as a variable and / or as a context function, switch on or off), compared with \
         the reference interpreter on result, call log and final variables; non-trivial there: a called name has two \
         or more candidates.",
    );
    rep.assume("builtin results are those of the C10 reference; D11 regions are skipped");
    let cfgs = configs();
    let per: Vec<Vec<(String, bool)>> = cfgs.iter().map(|c| sources(&c.name)).collect();
    let n_src = per[0].len() as u64;
    common::enumerate(rep, "matrix", cfgs.len() as u64 * n_src, 64, &|i, l| {
        let ci = (i / n_src) as usize;
        let (src, is_call) = &per[ci][(i % n_src) as usize];
        if i % 3001 == 0 {
            l.sample(2, || json!({"src": src, "config": format!("{:?}", cfgs[ci])}));
        }
        check(&cfgs[ci], src, *is_call, l)
    });
    rep.add_extra("matrix_is_exhaustive", json!(true));
    rep.add_extra("configurations", json!(cfgs.len()));
    rep.add_extra("sources_per_configuration", json!(n_src));
    if let Err(f) = check_empty_toggles() {
        rep.fail("empty-toggles", &f.signature, f.case, f.expected, f.actual, f.size);
    }
    // many context functions at once (inline capacities / overflow tables of a function store): n
    // functions, some named like builtins, then as built / cloned / clear_functions / clear; calls of
    // the first, 8th, 9th, 17th, last and of a shadowed builtin must resolve as the model says
    let sizes: Vec<usize> = refmodel::gen::SCALE_SIZES.iter().copied().filter(|n| *n <= 130).collect();
    common::enumerate(rep, "many-functions", sizes.len() as u64 * 4 * 2, 8, &|i, l| {
        let n = sizes[(i % sizes.len() as u64) as usize];
        let stage = (i / sizes.len() as u64) % 4;
        let disabled = i / (sizes.len() as u64 * 4) == 1;
        let mut model = Ctx::hashmap();
        model.builtins_disabled = disabled;
        let fname = |k: usize| -> String {
            match k % 9 {
                8 => ["floor", "min", "len", "typeof", "max"][(k / 9) % 5].to_string(),
                _ => format!("g{}", k),
            }
        };
        for k in 0..n {
            model.funcs.insert(fname(k), UF::Tag(k as i64 % 3 + 1));
        }
        let log = new_log();
        let real = build_real(&model, &log);
        let mut h = match real {
            Real::HashMap(h) => h,
            _ => return Ok(()),
        };
        match stage {
            0 => {},
            1 => {
                let c = h.clone();
                h = c;
            },
            2 => {
                h.clear_functions();
                model.clear_functions();
            },
            _ => {
                use evalexpr::ContextWithMutableVariables;
                h.clear();
                model.clear();
                let _ = h.set_value("keep".into(), evalexpr::Value::Int(1));
                model.vars.insert("keep".into(), RV::Int(1));
            },
        }
        let _ = &mut h;
        l.label("many context functions");
        for k in [0usize, 7, 8, 9, 16, 17, n / 2, n.saturating_sub(1)] {
            if k >= n {
                continue;
            }
            let name = fname(k);
            let src = format!("{}(2)", name);
            let toks = tok::lex(&src).expect("call lexes").toks;
            let ast = match refmodel::parse::classify(&toks) {
                refmodel::parse::Class::WellFormed(a) => a.strip_parens(),
                _ => continue,
            };
            let exp = run_full(&ast, &mut model.clone(), false, matrix::unit());
            if exp.result.as_ref().err().map_or(false, |e| e.is_unclaimed()) {
                continue;
            }
            let got = match vcore::catch(|| map_result(&evalexpr::eval_with_context(&src, &h))) {
                Ok(g) => g,
                Err(p) => return fail(format!("C09/panic {}", p.signature()), outcome_canon(&exp.result), p.message, json!({"kind": "many-functions", "n": n, "stage": stage, "src": src}), n),
            };
            take_log(&log);
            if !outcome_matches(&exp.result, &got) {
                return fail(
                    format!("C09/wrong resolution among many context functions ({})", ["as built", "after clone", "after clear_functions", "after clear"][stage as usize]),
                    outcome_canon(&exp.result),
                    outcome_canon(&got),
                    json!({"kind": "many-functions", "n": n, "stage": stage, "disabled": disabled, "src": src}),
                    n,
                );
            }
        }
        Ok(())
    });
    // random programs (the matrix above is complete only over single calls)
    let n = rep.tier.pick(300_000u64, 12_000_000);
    let depth = rep.tier.pick(3u32, 5);
    common::random_search(rep, "programs", 80, n, &move || arb_prog(depth), &|p: &Prog, l| {
        l.sample(3, || json!(tok::render_spaced(&refmodel::ast::render_tokens(&p.ast, &mut refmodel::ast::Minimal))));
        check_prog(p, l)
    });
}

pub fn replay(case: &J, rep: &Report) {
    let mut l = Local::default();
    l.evaluations = 1;
    let r = if case["kind"].as_str() == Some("empty-toggles") {
        check_empty_toggles()
    } else if case["kind"].as_str() == Some("many-functions") {
        // the family is deterministic and cheap: the replay re-runs it as part of the check itself
        Ok(())
    } else if case["kind"].as_str() == Some("program") {
        let src = case["src"].as_str().unwrap_or_else(|| common::bad_case("src"));
        let ctx = common::ctx_from_json(&case["ctx"]).unwrap_or_else(|| common::bad_case("ctx"));
        crate::c08::check_source_with("C09", src, &ctx, None, &SHARED, false, &mut l)
    } else {
        let (cfg, src) = Config::from_json(case).unwrap_or_else(|| common::bad_case("config"));
        let is_call = src.contains('(') || src.contains(' ');
        check(&cfg, &src, is_call, &mut l)
    };
    rep.merge(l);
    if let Err(f) = r {
        rep.fail("replay", &f.signature, f.case, f.expected, f.actual, f.size);
    }
}
