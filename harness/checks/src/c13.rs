//! C13 — malformed expressions are rejected, never given a meaning.

use adapt::{arity_ok, build_hashmap, err_variant, new_log};
use refmodel::interp::{Ctx, Kind, UF};
use refmodel::parse::{balanced, ill_formed, Ill};
use refmodel::tok::{self, Tok};
use refmodel::value::RV;
use vcore::serde_json::{json, Value as J};
use vcore::{Local, Report};

use crate::common::{self, fail, Outcome};
use crate::programs;
use crate::structure::{build, tokens_case, tokens_from_case};

/// Every identifier bound as an Int variable and as a function returning its argument's first
/// number; builtins on.
fn generous_context(toks: &[Tok]) -> Ctx {
    let mut c = Ctx::new(Kind::HashMap);
    let mut k = 1;
    for t in toks {
        if let Tok::Ident(n) = t {
            if !c.vars.contains_key(n) {
                c.vars.insert(n.clone(), RV::Int(k));
                c.funcs.insert(n.clone(), UF::FirstNumber);
                k += 1;
            }
        }
    }
    // the text of every string literal is bound as a variable as well, typed like the token that
    // follows it: an operator that wrongly adopts two juxtaposed operands (`+= "a" 1`) would find
    // its "target" defined and compatible. More bindings only make the context more generous.
    for (i, t) in toks.iter().enumerate() {
        if let Tok::Str(s) = t {
            if !c.vars.contains_key(s) {
                let v = match toks.get(i + 1) {
                    Some(Tok::Float(_)) => RV::Float(2.5),
                    Some(Tok::Bool(_)) => RV::Bool(false),
                    Some(Tok::Str(_)) => RV::Str("s".into()),
                    _ => RV::Int(3),
                };
                c.vars.insert(s.clone(), v);
            }
        }
    }
    c
}

fn take_log_quiet(l: &adapt::Log) {
    adapt::take_log(l);
}

fn reasons_text(r: &[Ill]) -> String {
    r.iter().map(|x| format!("{:?}", x)).collect::<Vec<_>>().join("+")
}

/// Root-cause key for "ill-formed input was given a meaning": the local pattern around the first
/// offending position.
fn meaning_signature(toks: &[Tok], reasons: &[Ill]) -> String {
    let class = |t: &Tok| -> &'static str {
        match t {
            Tok::Ident(_) => "id",
            Tok::Int(_) | Tok::Float(_) | Tok::Bool(_) | Tok::Str(_) => "lit",
            Tok::LParen => "(",
            Tok::RParen => ")",
            Tok::Comma | Tok::Semi => "sep",
            Tok::Minus => "-",
            Tok::Not => "!",
            t if t.is_assignment() => "assign-op",
            _ => "bin-op",
        }
    };
    // value followed by `()`
    for w in toks.windows(3) {
        if (w[0].is_literal() || matches!(w[0], Tok::RParen)) && matches!(w[1], Tok::LParen) && matches!(w[2], Tok::RParen) {
            return "value followed by `()`".into();
        }
    }
    // operator without left operand that is followed by two operands
    for (i, t) in toks.iter().enumerate() {
        let binary = t.is_pure_binary() || t.is_assignment();
        if binary && (i == 0 || !toks[i - 1].right_sided()) {
            return format!("{} without left operand (after {})", class(t), if i == 0 { "start" } else { class(&toks[i - 1]) });
        }
    }
    format!("other {}", reasons_text(reasons))
}

pub fn check_tokens(toks: &[Tok], l: &mut Local) -> Outcome {
    check_tokens_in(toks, None, l)
}

/// `base`: evaluate in this context extended generously (instead of the all-Int generous context),
/// so that well-typed programs keep evaluating.
pub fn check_tokens_in(toks: &[Tok], base: Option<&Ctx>, l: &mut Local) -> Outcome {
    check_tokens_rendered(toks, base, false, l)
}

pub fn check_tokens_rendered(toks: &[Tok], base: Option<&Ctx>, tight: bool, l: &mut Local) -> Outcome {
    let reasons = ill_formed(toks);
    let is_balanced = balanced(toks);
    let src = if tight { tok::render_tight(toks) } else { tok::render_spaced(toks) };
    if tight {
        // admissibility: the reference tokenizer must read the tight rendering as these tokens
        match tok::lex(&src) {
            Ok(o) if o.toks == toks => {},
            _ => return Ok(()),
        }
    }
    let built = match build(&src) {
        Ok(b) => b,
        Err(p) => {
            // a panic is C01's business unless the oracle defines the result: it does for every
            // ill-formed input ("rejected") and says nothing about panics elsewhere
            if reasons.is_empty() {
                l.label("panic handed to C01");
                return Ok(());
            }
            return fail(
                format!("C13/panic {}", p.signature()),
                "Err(..)",
                format!("panic: {} at {}", p.message, p.location),
                tokens_case(toks),
                toks.len(),
            );
        },
    };
    // balance
    if !is_balanced {
        l.label("I1 unbalanced");
        if toks.len() >= 3 {
            l.nontrivial_direct += 1;
        }
        if let Ok(_) = &built {
            return fail(
                "C13/unbalanced parentheses accepted",
                "Err(..)",
                "Ok(tree)",
                tokens_case(toks),
                toks.len(),
            );
        }
    } else {
        let depth = {
            let mut d = 0i32;
            let mut m = 0;
            for t in toks {
                match t {
                    Tok::LParen => {
                        d += 1;
                        m = m.max(d)
                    },
                    Tok::RParen => d -= 1,
                    _ => {},
                }
            }
            m
        };
        if depth >= 2 {
            l.label("balanced with nesting >= 2");
            l.nontrivial_direct += 1;
        }
        if let Err(e) = &built {
            let v = err_variant(e);
            if v == "UnmatchedLBrace" || v == "UnmatchedRBrace" {
                return fail(
                    format!("C13/balanced input reported as {}", v),
                    "anything but an unmatched-brace error",
                    format!("Err({})", v),
                    tokens_case(toks),
                    toks.len(),
                );
            }
        }
    }
    let operand_reasons: Vec<Ill> = reasons.iter().copied().filter(|r| *r != Ill::I1).collect();
    if operand_reasons.is_empty() {
        if reasons.is_empty() {
            l.label("not ill-formed by I1-I4");
        }
        return Ok(());
    }
    l.label("I2/I3/I4 ill-formed");
    if reasons.len() == 1 && toks.len() >= 3 {
        l.nontrivial_direct += 1;
    }
    let tree = match built {
        Err(_) => {
            l.label("rejected at build time");
            return Ok(());
        },
        Ok(t) => t,
    };
    let wrong_arity = !arity_ok(&tree);
    // evaluation in a generous context must never succeed
    let mut ctx = generous_context(toks);
    if let Some(b) = base {
        for (k, v) in &b.vars {
            ctx.vars.insert(k.clone(), v.clone());
        }
        for (k, f) in &b.funcs {
            ctx.funcs.insert(k.clone(), f.clone());
        }
        // builtin names must resolve to the builtins (generous_context binds every identifier as a
        // user function, which would shadow `if`, `len`, …)
        for name in refmodel::builtins::BUILTINS {
            ctx.funcs.remove(name);
        }
    }
    let log = new_log();
    let mut real = build_hashmap(&ctx, &log);
    // "in any context": the read-only evaluator must not give it a meaning either
    if let Ok(Ok(v)) = vcore::catch(|| tree.eval_with_context(&real)) {
        return fail(
            format!("C13/ill-formed input evaluates through the read-only evaluator: {}", meaning_signature(toks, &reasons)),
            format!("build error or evaluation error ({})", reasons_text(&reasons)),
            format!("Ok({:?}) from `{}`", v, src),
            tokens_case(toks),
            toks.len(),
        );
    }
    take_log_quiet(&log);
    let r = vcore::catch(|| tree.eval_with_context_mut(&mut real));
    match r {
        Err(p) => fail(
            format!("C13/eval panic {}", p.signature()),
            "Err(..)",
            format!("panic: {}", p.message),
            tokens_case(toks),
            toks.len(),
        ),
        Ok(Ok(v)) => fail(
            format!("C13/ill-formed input evaluates: {}", meaning_signature(toks, &reasons)),
            format!("build error or evaluation error ({})", reasons_text(&reasons)),
            format!("Ok({:?}) from `{}` (arity ok: {})", v, src, !wrong_arity),
            tokens_case(toks),
            toks.len(),
        ),
        Ok(Err(_)) => {
            if wrong_arity {
                l.label("built with a wrong-arity node, evaluation fails");
            } else {
                // built with correct arities but evaluation fails in the generous context: accepted
                // by the statement ("never evaluates successfully"), counted for the record
                l.label("built with correct arities, evaluation fails");
            }
            Ok(())
        },
    }
}

pub fn run(rep: &Report) {
    rep.set_rule(
        "every token sequence up to the length bound over the base alphabet plus `true`, classified by a local recogniser (I1 \
         unbalanced, I2 prefix without operand, I3 binary operator without operand, I4 juxtaposed operands) that builds \
         no tree; random longer well-formed renderings with one planted defect, also of type-directed programs that call eager builtins (`if`, `min`, `len`, ...) and evaluate successfully before the defect is planted; all sequences up to length 5 over number look-alike identifiers, signs and parentheses written without spaces. Evaluation is tried through the read-only and the mutable evaluator. Oracle: unbalanced -> build error; \
         balanced -> never an unmatched-brace error; I2/I3/I4 -> build error or wrong-arity node, and evaluation in a \
         generous context (every identifier bound as Int variable and as a function, builtins on) never Ok. \
         Non-trivial: ill-formed by exactly one reason with >= 3 tokens, or balanced with nesting >= 2.",
    );
    rep.assume("D4: `!` directly after an operand is neither well-formed nor in C13's list");
    let base = refmodel::gen::c13_alphabet();
    let max_len = rep.tier.pick(6usize, 7);
    for len in 1..=max_len {
        let total = refmodel::gen::count_sequences(base.len(), len);
        common::enumerate(rep, "sequences", total, 8192, &|i, l| {
            let mut toks = Vec::with_capacity(len);
            refmodel::gen::nth_sequence(&base, len, i, &mut toks);
            if i % 400_009 == 77_777 {
                l.sample(2, || json!(tok::render_spaced(&toks)));
            }
            check_tokens(&toks, l)
        });
    }
    {
        // extended alphabet (string literal, `true`, `||`, `<`, `%=`, a second identifier): up to
        // length 4 in the quick tier, 5 in the thorough tier
        let ext = refmodel::gen::extended_alphabet();
        for len in 1..=rep.tier.pick(4usize, 5) {
            let total = refmodel::gen::count_sequences(ext.len(), len);
            common::enumerate(rep, "sequences-extended", total, 8192, &|i, l| {
                let mut toks = Vec::with_capacity(len);
                refmodel::gen::nth_sequence(&ext, len, i, &mut toks);
                check_tokens(&toks, l)
            });
        }
    }
    planted_typed(rep);
    // number look-alike identifiers next to signs, written without spaces: the three-part
    // exponent re-assembly must not swallow or invent tokens (`2e+*`, `1e-)`, `rate-fee`)
    let mini: Vec<Tok> = vec![
        Tok::Ident("1e".into()),
        Tok::Ident("2E".into()),
        Tok::Ident("e".into()),
        Tok::Ident("rate".into()),
        Tok::Plus,
        Tok::Minus,
        Tok::Star,
        Tok::LParen,
        Tok::RParen,
        Tok::Int(1),
        Tok::Not,
    ];
    for len in 1..=5 {
        let total = refmodel::gen::count_sequences(mini.len(), len);
        common::enumerate(rep, "tight-lookalikes", total, 4096, &|i, l| {
            let mut toks = Vec::with_capacity(len);
            refmodel::gen::nth_sequence(&mini, len, i, &mut toks);
            check_tokens_rendered(&toks, None, true, l)
        });
    }
    rep.set_exhaustive(true);
    rep.add_extra("sequence_bound", json!(format!("all sequences of length <= {} over the 17-symbol alphabet (base + true)", max_len)));
    let n = rep.tier.pick(200_000u64, 9_000_000);
    let depth = rep.tier.pick(4u32, 6);
    common::random_search(
        rep,
        "planted",
        130,
        n,
        &move || programs::arb_planted_program(refmodel::gen::AstCfg::structural(depth)),
        &|p: &programs::Program, l| {
            let toks = match tok::lex(&p.src) {
                Ok(o) if !o.d6 => o.toks,
                _ => return Ok(()),
            };
            l.sample(2, || json!(p.src.clone()));
            check_tokens(&toks, l)
        },
    );
}

/// Typed programs (which call `if`, `min`, `len`, … with well-typed arguments and therefore
/// evaluate successfully) with one token deleted: a dead branch must not hide a missing operand.
fn planted_typed(rep: &Report) {
    use proptest::prelude::*;
    let n = rep.tier.pick(150_000u64, 6_000_000);
    common::random_search(
        rep,
        "planted-typed",
        131,
        n,
        &|| (programs::arb_typed_program(3), any::<u16>(), 0u8..3).boxed(),
        &|(p, pos, kind): &(programs::Program, u16, u8), l| {
            let mut toks = match tok::lex(&p.src) {
                Ok(o) if !o.d6 => o.toks,
                _ => return Ok(()),
            };
            if toks.is_empty() {
                return Ok(());
            }
            let i = (*pos as usize * toks.len()) >> 16;
            match kind {
                0 => {
                    toks.remove(i);
                },
                1 => {
                    let t = toks[i].clone();
                    toks.insert(i, t);
                },
                _ => {
                    // delete an operand together with nothing else: only if it is an operand
                    if toks[i].is_literal() || toks[i].is_ident() {
                        toks.remove(i);
                    } else {
                        return Ok(());
                    }
                },
            }
            l.label("typed program with a planted defect");
            check_tokens_in(&toks, Some(&p.ctx), l)
        },
    );
}

/// Scale: a long well-formed prefix (n elements; n around typical capacities) followed by a short
/// ill-formed or well-formed snippet, and parenthesis nestings of depth n that are balanced or off
/// by one. The verdict of the local recogniser does not depend on what precedes the snippet.
pub fn run_scale(rep: &Report) {
    let snippets = [
        "( + 1 2 )", "( * 2 3 )", "( == 2 2 )", "( && true false )", "1 2", "( 1 2 )", "+", "1 +", "( ) 1", "1 ( 2 )", "!", "( - )", "1 + * 2",
        "( = 1 )", "a = = 1", "1 , + 2", "( ; * 3 )", "- 1", "( 1 + 2 )", "f ( 1 )", "a = 3", "( )", "! true",
    ];
    let prefixes = ["0 ;", "1 ,", "a +", "( 1 ) *", "f 1 ;"];
    let sizes = refmodel::gen::SCALE_SIZES;
    let total = (snippets.len() * prefixes.len() * sizes.len()) as u64;
    common::enumerate(rep, "long-prefix", total, 16, &|i, l| {
        let sn = snippets[(i % snippets.len() as u64) as usize];
        let r = i / snippets.len() as u64;
        let pre = prefixes[(r % prefixes.len() as u64) as usize];
        let n = sizes[(r / prefixes.len() as u64) as usize];
        let src = format!("{} {}", vec![pre; n].join(" "), sn);
        if src.len() > 4000 {
            return Ok(());
        }
        let toks = tok::lex(&src).expect("scale source lexes").toks;
        l.label("long well-formed prefix + snippet");
        check_tokens_rendered(&toks, None, i % 2 == 1, l)
    });
    common::enumerate(rep, "paren-depth", sizes.len() as u64 * 3 * 2, 4, &|i, l| {
        let n = sizes[(i % sizes.len() as u64) as usize];
        let r = i / sizes.len() as u64;
        let closes = match r % 3 {
            0 => n,
            1 => n - 1,
            _ => n + 1,
        };
        let inner = if r / 3 == 0 { "1" } else { "1 , 2" };
        let src = format!("{} {} {}", vec!["("; n].join(" "), inner, vec![")"; closes].join(" "));
        let toks = tok::lex(&src).expect("scale source lexes").toks;
        l.label("parenthesis nesting of depth n, balanced or off by one");
        check_tokens_rendered(&toks, None, i % 2 == 0, l)
    });
}

pub fn replay(case: &J, rep: &Report) {
    let mut l = Local::default();
    let toks = tokens_from_case(case);
    let r = check_tokens(&toks, &mut l);
    l.evaluations = 1;
    rep.merge(l);
    if let Err(f) = r {
        rep.fail("replay", &f.signature, f.case, f.expected, f.actual, f.size);
    }
}
