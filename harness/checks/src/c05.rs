//! C05 — tuples and chains compose: `,` aggregates, `;` sequences.

use adapt::{build_hashmap, map_result, new_log, normalise, state_diff, observe};
use proptest::prelude::*;
use refmodel::ast::{render_tokens, Ast, Minimal};
use refmodel::gen::{self, AstCfg};
use refmodel::interp::{run as ref_run, Ctx, Kind};
use refmodel::parse::{classify, Class};
use refmodel::tok::{self, Tok};
use refmodel::value::{outcome_canon, outcome_matches};
use vcore::serde_json::{json, Value as J};
use vcore::{Local, Report};

use crate::c02::{self, AstCase};
use crate::common::{self, fail, Outcome};
use crate::matrix;
use crate::structure::{build, has_separator, tokens_case, tokens_from_case};

fn mixes_separators_at_one_level(toks: &[Tok]) -> bool {
    // per parenthesis level: both `,` and `;` seen
    let mut stack: Vec<(bool, bool)> = vec![(false, false)];
    let mut mixed = false;
    for t in toks {
        match t {
            Tok::LParen => stack.push((false, false)),
            Tok::RParen => {
                if stack.len() > 1 {
                    stack.pop();
                }
            },
            Tok::Comma => stack.last_mut().unwrap().0 = true,
            Tok::Semi => stack.last_mut().unwrap().1 = true,
            _ => {},
        }
        if let Some((c, s)) = stack.last() {
            if *c && *s {
                mixed = true;
            }
        }
    }
    mixed
}

fn has_empty_element(toks: &[Tok]) -> bool {
    let sep = |t: &Tok| matches!(t, Tok::Comma | Tok::Semi);
    for (i, t) in toks.iter().enumerate() {
        if sep(t) {
            let prev_absent = i == 0 || sep(&toks[i - 1]) || matches!(toks[i - 1], Tok::LParen);
            let next_absent = i + 1 == toks.len() || sep(&toks[i + 1]) || matches!(toks[i + 1], Tok::RParen);
            if prev_absent || next_absent {
                return true;
            }
        }
    }
    toks.windows(2).any(|w| matches!(w[0], Tok::LParen) && matches!(w[1], Tok::RParen))
}

/// Root-cause key of a sequence failure: which separators meet at one level, in which order.
fn sequence_signature(toks: &[Tok]) -> &'static str {
    // find the first level where a `,` is followed (at the same level) by a `;`
    let mut stack: Vec<Vec<char>> = vec![Vec::new()];
    let mut tuple_then_chain = false;
    let mut chain_then_tuple = false;
    for t in toks {
        match t {
            Tok::LParen => stack.push(Vec::new()),
            Tok::RParen => {
                if stack.len() > 1 {
                    stack.pop();
                }
            },
            Tok::Comma => {
                let lvl = stack.last_mut().unwrap();
                if lvl.contains(&';') {
                    chain_then_tuple = true;
                }
                lvl.push(',');
            },
            Tok::Semi => {
                let lvl = stack.last_mut().unwrap();
                if lvl.contains(&',') {
                    tuple_then_chain = true;
                }
                lvl.push(';');
            },
            _ => {},
        }
    }
    if tuple_then_chain {
        "a `,` followed by `;` at one parenthesis level"
    } else if chain_then_tuple {
        "a `;` followed by `,` at one parenthesis level"
    } else {
        "one separator kind per level"
    }
}

/// Tree and value/effects of a well-formed sequence must equal the reference.
pub fn check_tokens(toks: &[Tok], l: &mut Local) -> Outcome {
    if !has_separator(toks) && !toks.windows(2).any(|w| matches!(w[0], Tok::LParen) && matches!(w[1], Tok::RParen)) {
        l.label("no separator (C02's domain)");
        return Ok(());
    }
    let ast = match classify(toks) {
        Class::WellFormed(ast) => ast,
        Class::IllFormed(_) => {
            l.label("ill-formed (C13's domain)");
            return Ok(());
        },
        Class::Unclaimed(_) => {
            l.label("unclaimed (D1-D4)");
            return Ok(());
        },
    };
    l.label("claimed: well-formed sequence");
    let mixed = mixes_separators_at_one_level(toks);
    let empty = has_empty_element(toks);
    if mixed {
        l.label("mixes `,` and `;` at one level");
    }
    if empty {
        l.label("has an empty element");
    }
    let reads_assigned = toks.iter().any(|t| matches!(t, Tok::Assign)) && toks.iter().filter(|t| matches!(t, Tok::Ident(n) if n == "x")).count() >= 2;
    if mixed || empty || reads_assigned {
        l.nontrivial_direct += 1;
    }
    let src = tok::render_spaced(toks);
    let expected = ast.strip_parens();
    let sig = sequence_signature(toks);
    let tree = match build(&src) {
        Err(p) => {
            return fail(
                format!("C05/panic {} [{}]", p.signature(), sig),
                expected.sexp(),
                format!("panic: {} at {}", p.message, p.location),
                tokens_case(toks),
                toks.len(),
            )
        },
        Ok(Err(e)) => {
            return fail(
                format!("C05/well-formed sequence rejected ({}) [{}]", adapt::err_variant(&e), sig),
                expected.sexp(),
                format!("Err({:?})", e),
                tokens_case(toks),
                toks.len(),
            )
        },
        Ok(Ok(t)) => t,
    };
    let got = normalise(&tree);
    if !got.same(&expected) {
        return fail(format!("C05/different tree [{}]", sig), expected.sexp(), got.sexp(), tokens_case(toks), toks.len());
    }
    // value and effects on a fresh HashMapContext
    let mut model = Ctx::new(Kind::HashMap);
    let (exp_r, _, _) = ref_run(&expected, &mut model, true, matrix::unit());
    if let Err(e) = &exp_r {
        if e.is_unclaimed() {
            l.label("value unclaimed");
            return Ok(());
        }
    }
    let log = new_log();
    let mut real = build_hashmap(&Ctx::new(Kind::HashMap), &log);
    let got_r = match vcore::catch(|| map_result(&tree.eval_with_context_mut(&mut real))) {
        Ok(r) => r,
        Err(p) => {
            return fail(
                format!("C05/eval panic {}", p.signature()),
                outcome_canon(&exp_r),
                format!("panic: {}", p.message),
                tokens_case(toks),
                toks.len(),
            )
        },
    };
    if !outcome_matches(&exp_r, &got_r) {
        return fail(format!("C05/different value [{}]", sig), outcome_canon(&exp_r), outcome_canon(&got_r), tokens_case(toks), toks.len());
    }
    let obs = observe(&real, &["x".to_string(), "a".to_string()], &[]);
    if let Some(d) = state_diff(&obs, &model) {
        return fail(format!("C05/different effects [{}]", sig), model.describe(), d, tokens_case(toks), toks.len());
    }
    // the natural typed entry points for sequences: a tuple through eval_tuple(), a chain ending in
    // `;` (or any Empty result) through eval_empty(), both in a fresh context like the run above
    match &exp_r {
        Ok(refmodel::value::RV::Tuple(t)) => {
            let got = vcore::catch(|| tree.eval_tuple());
            let ok = matches!(&got, Ok(Ok(v)) if v.len() == t.len() && v.iter().zip(t).all(|(a, b)| adapt::to_rv(a).same(b)));
            if !ok {
                return fail(format!("C05/eval_tuple() differs [{}]", sig), outcome_canon(&exp_r), format!("{:?}", got.ok()), tokens_case(toks), toks.len());
            }
        },
        Ok(refmodel::value::RV::Empty) => {
            let got = vcore::catch(|| tree.eval_empty());
            if !matches!(&got, Ok(Ok(()))) {
                return fail(format!("C05/eval_empty() differs [{}]", sig), "Ok(())", format!("{:?}", got.ok()), tokens_case(toks), toks.len());
            }
        },
        _ => {},
    }
    // the same sequence through the read-only evaluator: every element is still evaluated in order
    // (an earlier failing element fails the chain)
    // — only for sequences without assignment operators: what the read-only evaluator reports for
    // an expression that contains one (and in which order) is C11's subject
    let mut model_imm = Ctx::new(Kind::HashMap);
    let (exp_i, _, _) = ref_run(&expected, &mut model_imm, false, matrix::unit());
    if !toks.iter().any(|t| t.is_assignment()) && !exp_i.as_ref().err().map_or(false, |e| e.is_unclaimed()) {
        let fresh = build_hashmap(&Ctx::new(Kind::HashMap), &log);
        if let Ok(got_i) = vcore::catch(|| map_result(&tree.eval_with_context(&fresh))) {
            if !outcome_matches(&exp_i, &got_i) {
                return fail(
                    format!("C05/different value through the read-only evaluator [{}]", sig),
                    outcome_canon(&exp_i),
                    outcome_canon(&got_i),
                    tokens_case(toks),
                    toks.len(),
                );
            }
        }
        // ... and through the string-level read-only entry point (which has its own glue)
        let fresh = build_hashmap(&Ctx::new(Kind::HashMap), &log);
        if let Ok(got_s) = vcore::catch(|| map_result(&evalexpr::eval_with_context(&src, &fresh))) {
            if !outcome_matches(&exp_i, &got_s) {
                return fail(
                    format!("C05/different value through eval_with_context(string) [{}]", sig),
                    outcome_canon(&exp_i),
                    outcome_canon(&got_s),
                    tokens_case(toks),
                    toks.len(),
                );
            }
        }
    }
    // the string-level mutable entry point: same value and same effects as the tree-level run
    let mut real_s = build_hashmap(&Ctx::new(Kind::HashMap), &log);
    if let Ok(got_s) = vcore::catch(|| map_result(&evalexpr::eval_with_context_mut(&src, &mut real_s))) {
        if !outcome_matches(&exp_r, &got_s) {
            return fail(
                format!("C05/different value through eval_with_context_mut(string) [{}]", sig),
                outcome_canon(&exp_r),
                outcome_canon(&got_s),
                tokens_case(toks),
                toks.len(),
            );
        }
        let obs = observe(&real_s, &["x".to_string(), "a".to_string()], &[]);
        if let Some(d) = state_diff(&obs, &model) {
            return fail(format!("C05/different effects through eval_with_context_mut(string) [{}]", sig), model.describe(), d, tokens_case(toks), toks.len());
        }
    }
    Ok(())
}

/// Random nested sequences: elements are assignments, reads of earlier assignments, literals,
/// empty elements; `,` and `;` mixed at one level in every order; nesting through parentheses.
fn sequence_cfg(depth: u32) -> AstCfg {
    let mut c = AstCfg::structural(depth);
    c.vars = AstCfg::names(&["x", "y"]);
    c.funcs = AstCfg::names(&["f"]);
    c
}

fn arb_sequence_ast(depth: u32) -> BoxedStrategy<AstCase> {
    // force a sequence at the top so that every case exercises `,`/`;`
    let cfg = sequence_cfg(depth);
    let inner = gen::arb_ast(&cfg);
    let elem = prop_oneof![1 => Just(Ast::Empty), 6 => inner];
    let tuple = proptest::collection::vec(elem.clone(), 2..5).prop_map(Ast::Tuple);
    let member = prop_oneof![2 => elem.clone(), 2 => tuple.clone()];
    let chain = proptest::collection::vec(member, 2..5).prop_map(Ast::Chain);
    (prop_oneof![1 => tuple, 3 => chain], gen::arb_bits()).prop_map(|(ast, bits)| AstCase { ast, bits }).boxed()
}

/// Elements whose effect is not idempotent: evaluating one twice, or once instead of twice, is
/// visible in the final variables and in the values of later elements.
fn effect_pool() -> Vec<Ast> {
    use refmodel::ast::{AssignOp, BinOp};
    use refmodel::value::RV;
    let v = |n: &str| Box::new(Ast::Var(n.to_string()));
    let i = |k: i64| Box::new(Ast::Lit(RV::Int(k)));
    let x = || "x".to_string();
    vec![
        Ast::Assign(AssignOp::Add, x(), i(1)),
        Ast::Assign(AssignOp::Set, x(), Box::new(Ast::Bin(BinOp::Add, v("x"), i(1)))),
        Ast::Assign(AssignOp::Mul, x(), i(3)),
        Ast::Assign(AssignOp::Set, x(), Box::new(Ast::Bin(BinOp::Mul, v("x"), v("x")))),
        Ast::Chain(vec![Ast::Assign(AssignOp::Add, x(), i(1)), Ast::Var(x())]),
        Ast::Tuple(vec![Ast::Assign(AssignOp::Sub, x(), i(2)), Ast::Var(x())]),
        Ast::Assign(AssignOp::Add, "s".to_string(), Box::new(Ast::Lit(RV::Str("a".into())))),
        Ast::Bin(BinOp::Add, v("x"), i(1)),
        Ast::Var(x()),
    ]
}

/// n-th member of the repeated-element family: a sequence of 2..=5 elements drawn from two pool
/// members (so most sequences repeat an element, next to itself and at a distance), as a tuple, a
/// chain, or a chain of two tuples, between `x = 2; s = ""` and a final read of both variables.
fn repeated_case(i: u64) -> Option<Ast> {
    use refmodel::ast::AssignOp;
    use refmodel::value::RV;
    let pool = effect_pool();
    let np = pool.len() as u64;
    let (shape, r) = (i % 3, i / 3);
    let (p, r) = ((r % np) as usize, r / np);
    let (q, r) = ((r % np) as usize, r / np);
    // r enumerates (length, mask): 4 + 8 + 16 + 32 = 60
    let (mut len, mut m) = (2u32, r);
    while m >= 1 << len {
        m -= 1 << len;
        len += 1;
        if len > 5 {
            return None;
        }
    }
    let elems: Vec<Ast> = (0..len).map(|k| if m >> k & 1 == 1 { pool[q].clone() } else { pool[p].clone() }).collect();
    let body = match shape {
        0 => Ast::Tuple(elems),
        1 => Ast::Chain(elems),
        _ => {
            let (a, b) = elems.split_at(elems.len() / 2);
            let wrap = |v: &[Ast]| if v.len() == 1 { v[0].clone() } else { Ast::Tuple(v.to_vec()) };
            Ast::Chain(vec![wrap(a), wrap(b)])
        },
    };
    let init_x = Ast::Assign(AssignOp::Set, "x".to_string(), Box::new(Ast::Lit(RV::Int(2))));
    let init_s = Ast::Assign(AssignOp::Set, "s".to_string(), Box::new(Ast::Lit(RV::Str(String::new()))));
    let last = Ast::Tuple(vec![Ast::Var("x".to_string()), Ast::Var("s".to_string())]);
    let mut chain = vec![init_x, init_s];
    match body {
        // a chain inside a chain is the same flat chain; keep the source flat
        Ast::Chain(v) if shape == 1 => chain.extend(v),
        b => chain.push(b),
    }
    chain.push(last);
    Some(Ast::Chain(chain))
}
const REPEATED_CASES: u64 = 3 * 9 * 9 * 60;

fn check_sequence_ast(c: &AstCase, l: &mut Local) -> Outcome {
    c02::check_ast(c, "C05", l)?;
    let toks = render_tokens(&c.ast, &mut Minimal);
    check_tokens(&toks, l)
}

pub fn run(rep: &Report) {
    rep.set_rule(
        "(a) every token sequence up to the length bound over the sequence alphabet `1 x = , ; ( )` and over the base \
         alphabet (those containing a separator or `()`), classified by the reference parser; well-formed ones must \
         build into the reference chain-of-tuples tree and evaluate (mutable, fresh HashMapContext) to the reference \
         interpreter's value and final variables — through the tree-level evaluator, through eval_tuple() / eval_empty(), \
         through the string-level eval_with_context_mut, and (sequences without assignment operators) through the \
         tree-level and string-level read-only evaluators. (b) random nested sequence ASTs with empty elements, assignments and \
         reads, rendered with minimal and redundant parentheses. (c) every sequence of 2..=5 elements over each pair of nine elements with non-idempotent effects (`x += 1`, `x = x * x`, `(x += 1; x)`, `s += \"a\"`, ...) as a tuple, a chain and a chain of two tuples, so that elements repeat next to themselves and at a distance; value and final variables against the reference interpreter. Non-trivial: a level mixing `,` and `;`, or an empty \
         element, or an assignment read by a later element.",
    );
    rep.assume("reference = chain of tuples per parenthesis level; an absent element is the empty value");
    let seq = gen::sequence_alphabet();
    let max_len = rep.tier.pick(7usize, 9);
    for len in 1..=max_len {
        let total = gen::count_sequences(seq.len(), len);
        common::enumerate(rep, "sequence-alphabet", total, 4096, &|i, l| {
            let mut toks = Vec::with_capacity(len);
            gen::nth_sequence(&seq, len, i, &mut toks);
            if i % 30011 == 7_777 {
                l.sample(2, || json!(tok::render_spaced(&toks)));
            }
            check_tokens(&toks, l)
        });
    }
    let base = gen::base_alphabet();
    let max_base = rep.tier.pick(5usize, 6);
    for len in 1..=max_base {
        let total = gen::count_sequences(base.len(), len);
        common::enumerate(rep, "base-alphabet", total, 8192, &|i, l| {
            let mut toks = Vec::with_capacity(len);
            gen::nth_sequence(&base, len, i, &mut toks);
            check_tokens(&toks, l)
        });
    }
    rep.set_exhaustive(true);
    rep.add_extra(
        "sequence_bound",
        json!(format!("length <= {} over the 7-symbol sequence alphabet, length <= {} over the 16-symbol base alphabet", max_len, max_base)),
    );
    // repeated elements with effects: every element of a tuple / chain is evaluated, each time it occurs
    common::enumerate(rep, "repeated-elements", REPEATED_CASES, 64, &|i, l| {
        let ast = match repeated_case(i) {
            Some(a) => a,
            None => return Ok(()),
        };
        let toks = render_tokens(&ast, &mut Minimal);
        if i % 1009 == 5 {
            l.sample(3, || json!(tok::render_spaced(&toks)));
        }
        l.label("sequence repeating an element with a side effect");
        check_tokens(&toks, l)
    });
    let n = rep.tier.pick(200_000u64, 6_000_000);
    let depth = rep.tier.pick(4u32, 7);
    common::random_search(rep, "random-sequences", 50, n, &move || arb_sequence_ast(depth), &|c: &AstCase, l| {
        l.sample(3, || json!(tok::render_spaced(&render_tokens(&c.ast, &mut Minimal))));
        check_sequence_ast(c, l)
    });
}

pub fn replay(case: &J, rep: &Report) {
    let mut l = Local::default();
    let toks = tokens_from_case(case);
    let r = check_tokens(&toks, &mut l);
    l.evaluations = 1;
    rep.merge(l);
    if let Err(f) = r {
        rep.fail("replay", &f.signature, f.case, f.expected, f.actual, f.size);
    }
}
