//! Library part of the checks: every check module is public so that the fuzz targets can reuse the
//! same case functions (the oracle lives inside the target).
#![allow(dead_code)]

pub mod c01;
pub mod c02;
pub mod c03;
pub mod c04;
pub mod c05;
pub mod c06;
pub mod c07;
pub mod c08;
pub mod c09;
pub mod c10;
pub mod c11;
pub mod c12;
pub mod c13;
pub mod c14;
pub mod common;
pub mod entry;
pub mod matrix;
pub mod programs;
pub mod scale;
pub mod structure;
