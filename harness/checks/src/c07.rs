//! C07 — whitespace and comments never change meaning.

use proptest::prelude::*;
use proptest::sample::select;
use refmodel::ast::{render_tokens, Minimal};
use refmodel::gen::{self, AstCfg};
use refmodel::tok::{self, gap_needs_separator, Tok, WHITESPACE};
use vcore::serde_json::{json, Value as J};
use vcore::{Local, Report};

use crate::common::{self, fail, Outcome};
use crate::structure::build;

#[derive(Clone, Debug, PartialEq)]
pub enum Item {
    Ws(usize),
    Block(String),
    Line(String),
}

impl Item {
    fn text(&self) -> String {
        match self {
            Item::Ws(i) => WHITESPACE[*i % WHITESPACE.len()].to_string(),
            Item::Block(t) => format!("/*{}*/", t),
            Item::Line(t) => format!("//{}\n", t),
        }
    }
    fn is_comment(&self) -> bool {
        !matches!(self, Item::Ws(_))
    }
}

/// gap kind: 0 empty, 1 whitespace only, 2 contains a comment
fn gap_kind(g: &[Item]) -> u8 {
    if g.is_empty() {
        0
    } else if g.iter().any(|i| i.is_comment()) {
        2
    } else {
        1
    }
}

const COMMENT_ATOMS: [&str; 32] = [
    "", " ", "x", "text", "\"", "\"a\"", "//", "/*", "/", "*", "+", "-", "=", "&", "|", "(", ")", ",", ";", "1e", "ä", "日本", "\t",
    "\\", "a b", "😀",
    // characters a line-ending normaliser might mistake for the end of a line comment (only `\n` ends one)
    "\r", "\rx", "\u{b}", "\u{c}", "\u{85}", "\u{2028}",
];

fn arb_comment_text(block: bool) -> BoxedStrategy<String> {
    proptest::collection::vec(select(COMMENT_ATOMS.to_vec()), 0..4)
        .prop_map(move |v| {
            let mut s = v.concat();
            if block {
                // no `*/` inside a block comment; newlines are allowed
                while s.contains("*/") {
                    s = s.replace("*/", "* /");
                }
                s.push_str(if s.ends_with('*') { " " } else { "" });
                if s.len() % 3 == 0 {
                    s.push('\n');
                }
            } else {
                s = s.replace('\n', " ");
            }
            s
        })
        .boxed()
}

fn arb_item() -> BoxedStrategy<Item> {
    prop_oneof![
        6 => (0usize..WHITESPACE.len()).prop_map(Item::Ws),
        1 => Just(Item::Block(String::new())),
        2 => arb_comment_text(true).prop_map(Item::Block),
        2 => arb_comment_text(false).prop_map(Item::Line),
    ]
    .boxed()
}

/// One gap: 0..3 items, biased towards empty so that tight renderings are common.
fn arb_gap() -> BoxedStrategy<Vec<Item>> {
    prop_oneof![
        4 => Just(Vec::new()),
        6 => proptest::collection::vec(arb_item(), 1..4),
    ]
    .boxed()
}

#[derive(Clone, Debug)]
pub struct SepCase {
    pub toks: Vec<Tok>,
    pub s1: Vec<Vec<Item>>,
    pub s2: Vec<Vec<Item>>,
}

/// Make a separator assignment admissible for `toks` (len+1 gaps): force a separator where the
/// neighbours would fuse, never start a gap that follows `/` with a comment, never let a `/`-
/// or `*`-initial... (only `/` matters) token directly follow nothing problematic.
fn normalise_assignment(toks: &[Tok], gaps: &[Vec<Item>]) -> Vec<Vec<Item>> {
    let n = toks.len();
    let mut out: Vec<Vec<Item>> = (0..=n).map(|i| gaps.get(i % gaps.len().max(1)).cloned().unwrap_or_default()).collect();
    if gaps.is_empty() {
        out = vec![Vec::new(); n + 1];
    }
    for i in 0..=n {
        // a gap directly after a token ending in `/` must not begin with a comment
        // (`/` + `/**/` would read `//**/`)
        if i >= 1 && matches!(toks[i - 1], Tok::Slash) {
            if out[i].first().map_or(false, |it| it.is_comment()) {
                out[i].insert(0, Item::Ws(5));
            }
        }
        // gaps are settled left to right: the left neighbour is final, the right one is taken as
        // it stands (if it is forced open later this gap was opened without need, which is harmless).
        // Context-sensitive on purpose: `1e- 3` and `1e -3` are both generated, `1e-3` never.
        if i >= 1 && i < n && out[i].is_empty() {
            let left_tight = i >= 2 && out[i - 1].is_empty();
            let right_tight = i + 1 < n && out[i + 1].is_empty() && !tok::pair_fuses(toks, i + 1);
            if tok::gap_needs_separator_given(toks, i, left_tight, right_tight) {
                out[i].push(Item::Ws(5));
            }
        }
    }
    if n == 0 {
        out.truncate(1);
    }
    out
}

pub fn render_with(toks: &[Tok], gaps: &[Vec<Item>]) -> String {
    let mut s = String::new();
    for i in 0..=toks.len() {
        if let Some(g) = gaps.get(i) {
            for it in g {
                s.push_str(&it.text());
            }
        }
        if i < toks.len() {
            s.push_str(&toks[i].text());
        }
    }
    s
}

fn outcome_of(src: &str) -> Result<String, vcore::PanicInfo> {
    // trees are compared through PartialEq below; for reporting we keep the Debug text of errors
    build(src).map(|r| match r {
        Ok(_) => "Ok".to_string(),
        Err(e) => format!("Err({})", adapt::err_variant(&e)),
    })
}

pub fn check_case(c: &SepCase, l: &mut Local) -> Outcome {
    let toks = &c.toks;
    let g1 = normalise_assignment(toks, &c.s1);
    let g2 = normalise_assignment(toks, &c.s2);
    let r0 = tok::render_spaced(toks);
    let r1 = render_with(toks, &g1);
    let r2 = render_with(toks, &g2);
    let case = json!({"kind": "renderings", "canonical": r0, "r1": r1, "r2": r2});
    // admissibility is asserted, not assumed: the reference tokenizer must read all three
    // renderings as the same token sequence
    for (name, r) in [("canonical", &r0), ("r1", &r1), ("r2", &r2)] {
        match tok::lex(r) {
            // D6 words are opaque operand tokens: whatever they denote, separators must not matter
            Ok(o) if o.toks == *toks => {
                if o.d6 {
                    l.label("contains a D6 word (opaque operand)");
                }
            },
            _ => {
                l.label("rejected: rendering not admissible for the reference tokenizer");
                let _ = name;
                return Ok(());
            },
        }
    }
    let differs = g1.iter().zip(&g2).any(|(a, b)| gap_kind(a) != gap_kind(b));
    let inner_differs = (1..toks.len()).any(|i| {
        gap_kind(&g1[i]) != gap_kind(&g2[i]) && !matches!(toks[i - 1], Tok::LParen | Tok::RParen | Tok::Comma | Tok::Semi | Tok::Str(_))
    });
    if differs {
        l.label("some gap differs in kind (empty / whitespace / comment)");
        l.nontrivial_key(&format!("{}\u{1}{}", r1, r2));
    }
    if inner_differs {
        l.label("a gap next to a word or operator part differs in kind");
    }
    if g1.iter().chain(&g2).any(|g| g.iter().any(|i| i.is_comment())) {
        l.label("contains a comment");
    }
    let b0 = build(&r0);
    let b1 = build(&r1);
    let b2 = build(&r2);
    let (b0, b1, b2) = match (b0, b1, b2) {
        (Ok(a), Ok(b), Ok(c)) => (a, b, c),
        (a, b, c) => {
            let p = [a.err(), b.err(), c.err()].into_iter().flatten().next().unwrap();
            return fail(format!("C07/panic {}", p.signature()), "no panic", format!("panic: {}", p.message), case, r1.len() + r2.len());
        },
    };
    for (name, b, r) in [("r1", &b1, &r1), ("r2", &b2, &r2)] {
        let same = match (&b0, b) {
            (Ok(t0), Ok(t)) => adapt::tree_same(t0, t),
            (Err(e0), Err(e)) => adapt::err_variant(e0) == adapt::err_variant(e),
            _ => false,
        };
        if !same {
            let kind = separator_signature(toks, if name == "r1" { &g1 } else { &g2 }, &b0, b);
            return fail(
                format!("C07/{}", kind),
                format!("{} from `{}`", outcome_of(&r0).unwrap_or_default(), r0),
                format!("{} from `{}`", outcome_of(r).unwrap_or_default(), r),
                case,
                r1.len() + r2.len(),
            );
        }
    }
    Ok(())
}

/// Root-cause key: which kind of separator stands at the first gap where removing it would fuse.
fn separator_signature(
    toks: &[Tok],
    gaps: &[Vec<Item>],
    b0: &Result<adapt::Tree, adapt::Err>,
    b: &Result<adapt::Tree, adapt::Err>,
) -> String {
    let stars = gaps.iter().flatten().any(|it| matches!(it, Item::Block(t) if t.contains('*')));
    let non_ascii = gaps.iter().flatten().any(|it| matches!(it, Item::Block(t) | Item::Line(t) if !t.is_ascii()));
    for i in 1..toks.len() {
        if gap_needs_separator(toks, i) && !gaps[i].is_empty() && gaps[i].iter().all(|it| it.is_comment()) {
            return format!(
                "a gap made only of comments between tokens that would fuse is read differently ({} vs {}{}{})",
                short(b0),
                short(b),
                if stars { "; a comment body contains `*`" } else { "" },
                if non_ascii { "; a comment body is not ASCII" } else { "" }
            );
        }
    }
    if stars || non_ascii {
        return format!(
            "rendering with a comment whose body {} differs ({} vs {})",
            if stars { "contains `*`" } else { "is not ASCII" },
            short(b0),
            short(b)
        );
    }
    for g in gaps {
        for it in g {
            if let Item::Ws(i) = it {
                let c = WHITESPACE[*i % WHITESPACE.len()];
                if c != ' ' && c != '\t' && c != '\n' && c != '\r' {
                    return format!("rendering with whitespace U+{:04X} differs ({} vs {})", c as u32, short(b0), short(b));
                }
            }
        }
    }
    format!("renderings differ ({} vs {})", short(b0), short(b))
}

fn short(b: &Result<adapt::Tree, adapt::Err>) -> String {
    match b {
        Ok(_) => "tree".into(),
        Err(e) => adapt::err_variant(e),
    }
}

fn arb_tokens() -> BoxedStrategy<Vec<Tok>> {
    let mut cfg = AstCfg::structural(4);
    cfg.rich_literals = true;
    cfg.opaque = true;
    // no lone `&` / `|` can arise: sequences are built from whole tokens (D10)
    prop_oneof![
        4 => gen::arb_ast(&cfg).prop_map(|a| render_tokens(&a, &mut Minimal)),
        3 => gen::arb_soup(10),
        2 => proptest::collection::vec(select(class_representatives()), 0..6),
    ]
    .boxed()
}

fn arb_case() -> BoxedStrategy<SepCase> {
    (arb_tokens(), proptest::collection::vec(arb_gap(), 1..14), proptest::collection::vec(arb_gap(), 1..14))
        .prop_map(|(toks, s1, s2)| SepCase { toks, s1, s2 })
        .boxed()
}

/// One representative per lexical class (for the complete pair x separator table).
pub fn class_representatives() -> Vec<Tok> {
    let mut v = gen::op_tokens();
    v.extend(vec![
        Tok::Ident("a".into()),
        Tok::Ident("f".into()),
        Tok::Ident("1e".into()),
        Tok::Ident("e".into()),
        Tok::Ident("x1".into()),
        Tok::Int(5),
        Tok::Int(0x1e),
        Tok::Float(1.5),
        Tok::Float(1e5),
        Tok::Float(2e-3),
        Tok::Bool(true),
        Tok::Str("s".into()),
        Tok::Str("//".into()),
        Tok::Opaque("9223372036854775808".into()),
        Tok::Opaque("inf".into()),
    ]);
    v
}

fn table_separators() -> Vec<Vec<Item>> {
    let mut v: Vec<Vec<Item>> = vec![Vec::new()];
    for i in 0..WHITESPACE.len() {
        v.push(vec![Item::Ws(i)]);
    }
    v.push(vec![Item::Block(String::new())]);
    v.push(vec![Item::Block(" x \"//\n ".into())]);
    v.push(vec![Item::Line(" x */ \" ".into())]);
    v.push(vec![Item::Block("*".into()), Item::Block("/".into())]);
    v
}

pub fn run(rep: &Report) {
    rep.set_rule(
        "token sequences (rendered ASTs, token soups, class representatives) with two independent separator \
         assignments per gap (0..3 items from the 25 Unicode whitespace characters, /**/, /* text */, // text\\n; a \
         separator is forced where the reference tokenizer would fuse the neighbours; a gap after `/` never starts with \
         a comment) plus the canonical single-space rendering; oracle: all three build equal trees or fail with the \
         same error variant; admissibility asserted with the reference tokenizer. Complete table: every ordered pair \
         of token-class representatives x every separator kind, and every ordered triple x {empty, space, comment}^2 for its two gaps (a gap is forced open only if the rendering as it stands would fuse: `1e- 3` and `1e -3` are checked, `1e-3` is a different program). All sequences up to length 4 over the base alphabet \
         rendered tight and with comments. Non-trivial: distinct pairs of renderings in which some gap differs in kind \
         (empty / whitespace / comment).",
    );
    rep.assume("D10: lone `&` / `|` are not tokens; sequences are built from whole tokens only");
    // complete table: pairs of class representatives x separator kinds, in two contexts
    let reps = class_representatives();
    let seps = table_separators();
    let k = reps.len() as u64;
    let m = seps.len() as u64;
    common::enumerate(rep, "pair-table", k * k * m * 2, 1024, &|i, l| {
        let a = &reps[(i % k) as usize];
        let b = &reps[((i / k) % k) as usize];
        let s = &seps[((i / (k * k)) % m) as usize];
        let with_context = i / (k * k * m) == 1;
        let toks: Vec<Tok> = if with_context {
            vec![Tok::Ident("x".into()), Tok::Plus, a.clone(), b.clone(), Tok::Star, Tok::Int(2)]
        } else {
            vec![a.clone(), b.clone()]
        };
        let gi = if with_context { 3 } else { 1 };
        let mut s1 = vec![Vec::new(); toks.len() + 1];
        s1[gi] = s.clone();
        let mut s2 = vec![vec![Item::Ws(5)]; toks.len() + 1];
        s2[gi] = s.clone();
        check_case(&SepCase { toks, s1, s2 }, l)
    });
    rep.add_extra("pair_table", json!(format!("{} class representatives^2 x {} separators x 2 contexts", k, m)));
    // complete table of triples: three-part joins (`1e` `-` `3`) depend on both gaps at once, so
    // every ordered triple of class representatives x {empty, space, comment}^2 for its two gaps
    let kinds: [Vec<Item>; 3] = [Vec::new(), vec![Item::Ws(5)], vec![Item::Block(String::new())]];
    common::enumerate(rep, "triple-table", k * k * k * 9, 4096, &|i, l| {
        let a = &reps[(i % k) as usize];
        let b = &reps[((i / k) % k) as usize];
        let c = &reps[((i / (k * k)) % k) as usize];
        let g = (i / (k * k * k)) as usize;
        let toks = vec![a.clone(), b.clone(), c.clone()];
        let s1 = vec![Vec::new(), kinds[g % 3].clone(), kinds[g / 3].clone(), Vec::new()];
        let s2 = vec![Vec::new(), kinds[g / 3].clone(), kinds[g % 3].clone(), Vec::new()];
        check_case(&SepCase { toks, s1, s2 }, l)
    });
    rep.add_extra("triple_table", json!(format!("{} class representatives^3 x 3^2 gap kinds", k)));
    // all short sequences, tight vs commented
    let base = gen::base_alphabet();
    let max_len = rep.tier.pick(4usize, 5);
    for len in 1..=max_len {
        let total = gen::count_sequences(base.len(), len);
        common::enumerate(rep, "short-sequences", total, 2048, &|i, l| {
            let mut toks = Vec::with_capacity(len);
            gen::nth_sequence(&base, len, i, &mut toks);
            let s1 = vec![Vec::new(); len + 1];
            let s2 = vec![vec![Item::Block(String::new())]; len + 1];
            check_case(&SepCase { toks, s1, s2 }, l)
        });
    }
    rep.set_exhaustive(true);
    let n = rep.tier.pick(400_000u64, 6_000_000);
    common::random_search(rep, "random", 70, n, &arb_case, &|c: &SepCase, l| {
        l.sample(4, || {
            let g1 = normalise_assignment(&c.toks, &c.s1);
            let g2 = normalise_assignment(&c.toks, &c.s2);
            json!({"r1": render_with(&c.toks, &g1), "r2": render_with(&c.toks, &g2)})
        });
        check_case(c, l)
    });
    // long separators: every run length 0..=320 of whitespace, of empty comments, and every comment
    // body length 0..=320 (ASCII and multi-byte), in front of, inside and behind a small expression
    // (block boundaries, inline capacities and counters of a tokenizer are crossed only by long gaps)
    let base_toks = |k: u64| -> Vec<Tok> {
        match k % 3 {
            0 => vec![Tok::Ident("alpha".into()), Tok::Plus, Tok::Int(12)],
            1 => vec![Tok::Int(1), Tok::Plus, Tok::Int(2), Tok::Star, Tok::Ident("beta".into())],
            _ => vec![Tok::Ident("f".into()), Tok::LParen, Tok::Int(10), Tok::Comma, Tok::Str("a b".into()), Tok::RParen],
        }
    };
    common::enumerate(rep, "long-separators", 321 * 6 * 3, 64, &|i, l| {
        let n = (i % 321) as usize;
        let kind = (i / 321) % 6;
        let toks = base_toks(i / (321 * 6));
        let gaps = toks.len() + 1;
        let long: Vec<Item> = match kind {
            0 => (0..n).map(|_| Item::Ws(5)).collect(),
            1 => (0..n).map(|j| Item::Ws(j)).collect(),
            2 => (0..n).map(|_| Item::Block(String::new())).collect(),
            3 => vec![Item::Block("x".repeat(n))],
            4 => vec![Item::Block("ä*".repeat(n / 3) + &"y".repeat(n % 3))],
            _ => vec![Item::Line("z".repeat(n))],
        };
        // the long gap in front, in the middle and at the end, one position per case
        let at = (i as usize / 7) % gaps;
        let mut s1 = vec![Vec::new(); gaps];
        s1[at] = long;
        let s2 = vec![vec![Item::Ws(5)]; gaps];
        if n >= 16 {
            l.label("long separator (>= 16 items or characters)");
        }
        check_case(&SepCase { toks, s1, s2 }, l)
    });
    // unterminated block comments are errors wherever they stand (outside strings)
    let n2 = rep.tier.pick(40_000u64, 600_000);
    common::random_search(
        rep,
        "unterminated-comment",
        71,
        n2,
        &|| (arb_tokens(), any::<u16>(), arb_comment_text(true)).boxed(),
        &|(toks, pos, text): &(Vec<Tok>, u16, String), l| {
            let at = (*pos as usize * (toks.len() + 1)) >> 16;
            let mut s = tok::render_spaced(&toks[..at]);
            s.push_str(" /*");
            s.push_str(text);
            s.push(' ');
            s.push_str(&tok::render_spaced(&toks[at..]).replace("*/", "* /"));
            // the tail must not close the comment
            if s[s.find("/*").unwrap() + 2..].contains("*/") {
                return Ok(());
            }
            l.label("unterminated block comment");
            match build(&s) {
                Ok(Err(_)) => Ok(()),
                Ok(Ok(_)) => fail(
                    "C07/unterminated block comment accepted",
                    "Err(..)",
                    "Ok(tree)",
                    json!({"kind": "source", "src": s}),
                    s.len(),
                ),
                Err(p) => fail(format!("C07/panic {}", p.signature()), "Err(..)", format!("panic: {}", p.message), json!({"kind": "source", "src": s}), s.len()),
            }
        },
    );
}

pub fn replay(case: &J, rep: &Report) {
    let mut l = Local::default();
    l.evaluations = 1;
    let r = match case["kind"].as_str() {
        Some("renderings") => {
            let get = |k: &str| case[k].as_str().unwrap_or_else(|| common::bad_case(k)).to_string();
            let (r0, r1, r2) = (get("canonical"), get("r1"), get("r2"));
            replay_renderings(&r0, &r1, &r2)
        },
        Some("source") => {
            let s = case["src"].as_str().unwrap_or_else(|| common::bad_case("src"));
            match build(s) {
                Ok(Ok(_)) => fail("C07/unterminated block comment accepted", "Err(..)", "Ok(tree)", case.clone(), s.len()),
                _ => Ok(()),
            }
        },
        _ => common::bad_case("kind"),
    };
    rep.merge(l);
    if let Err(f) = r {
        rep.fail("replay", &f.signature, f.case, f.expected, f.actual, f.size);
    }
}

fn replay_renderings(r0: &str, r1: &str, r2: &str) -> Outcome {
    let case = json!({"kind": "renderings", "canonical": r0, "r1": r1, "r2": r2});
    // admissibility through the reference tokenizer
    let t0 = tok::lex(r0);
    for r in [r1, r2] {
        match (&t0, tok::lex(r)) {
            (Ok(a), Ok(b)) if a.toks == b.toks => {},
            _ => return Ok(()),
        }
    }
    let b0 = build(r0);
    for r in [r1, r2] {
        let b = build(r);
        let same = match (&b0, &b) {
            (Ok(Ok(t0)), Ok(Ok(t))) => adapt::tree_same(t0, t),
            (Ok(Err(e0)), Ok(Err(e))) => adapt::err_variant(e0) == adapt::err_variant(e),
            _ => false,
        };
        if !same {
            return fail("C07/renderings differ", format!("`{}`", r0), format!("`{}`", r), case, r1.len() + r2.len());
        }
    }
    Ok(())
}
