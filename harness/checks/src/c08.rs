//! C08 — strict left-to-right evaluation; the first error wins.

use adapt::{arith_operands, build_hashmap, map_err, new_log, normalise, observe, state_diff, take_log};
use evalexpr::DefaultNumericTypes;
use proptest::prelude::*;
use proptest::sample::select;
use refmodel::ast::{render_tokens, AssignOp, Ast, BinOp, BitChoices};
use refmodel::gen;
use refmodel::interp::{log_describe, log_same, Ctx, Kind, UF};
use refmodel::tok;
use refmodel::value::{outcome_canon, outcome_matches, RE, RV};
use vcore::serde_json::{json, Value as J};
use vcore::{Local, Report};

use crate::common::{self, fail, Outcome};
use crate::matrix;

#[derive(Clone, Debug)]
pub struct Case {
    pub ast: Ast,
    pub bits: Vec<bool>,
    pub ctx: Ctx,
}

fn lit(i: i64) -> Ast {
    Ast::Lit(RV::Int(i))
}

/// Mostly-integer expressions with effects and failures in operand positions.
fn arb_int_expr(depth: u32) -> BoxedStrategy<Ast> {
    let leaf = prop_oneof![
        6 => (0i64..10).prop_map(lit),
        5 => select(vec!["x", "y", "z"]).prop_map(|n| Ast::Var(n.to_string())),
        1 => select(vec!["u1", "u2", "u3"]).prop_map(|n| Ast::Var(n.to_string())),
    ];
    leaf.prop_recursive(depth, 24, 3, |inner| {
        let inner: BoxedStrategy<Ast> = inner.boxed();
        let e = inner.clone();
        prop_oneof![
            6 => (select(vec![BinOp::Add, BinOp::Sub, BinOp::Mul]), e.clone(), e.clone()).prop_map(|(o, a, b)| Ast::Bin(o, Box::new(a), Box::new(b))),
            1 => (select(vec![BinOp::Lt, BinOp::Eq, BinOp::Exp, BinOp::Mod]), e.clone(), e.clone()).prop_map(|(o, a, b)| Ast::Bin(o, Box::new(a), Box::new(b))),
            // distinct dividends tell which division failed
            2 => (10i64..40).prop_map(|k| Ast::Bin(BinOp::Div, Box::new(lit(k)), Box::new(lit(0)))),
            4 => e.clone().prop_map(|a| Ast::Call("rec1".into(), Box::new(a))),
            1 => e.clone().prop_map(|a| Ast::Call("rec2".into(), Box::new(a))),
            1 => e.clone().prop_map(|a| Ast::Call("rec3".into(), Box::new(a))),
            2 => (select(vec!["fail1", "fail2"]), e.clone()).prop_map(|(f, a)| Ast::Call(f.to_string(), Box::new(a))),
            // user functions that shadow a builtin and fail: their error wins, the builtin is not consulted
            1 => (select(vec!["floor", "len"]), e.clone()).prop_map(|(f, a)| Ast::Call(f.to_string(), Box::new(a))),
            1 => (select(vec!["nofn1", "nofn2"]), e.clone()).prop_map(|(f, a)| Ast::Call(f.to_string(), Box::new(a))),
            2 => (e.clone(), e.clone()).prop_map(|(a, b)| Ast::Call("rec1".into(), Box::new(Ast::Tuple(vec![a, b])))),
            1 => e.clone().prop_map(|a| Ast::Neg(Box::new(a))),
            // an assignment inside an operand position: `(x = e; x)` yields the new value
            3 => (select(vec!["x", "y", "z"]), e.clone()).prop_map(|(n, a)| {
                Ast::Chain(vec![Ast::Assign(AssignOp::Set, n.to_string(), Box::new(a)), Ast::Var(n.to_string())])
            }),
            1 => (select(vec!["x", "y"]), select(vec![AssignOp::Add, AssignOp::Mul, AssignOp::Sub]), e.clone()).prop_map(|(n, o, a)| {
                Ast::Chain(vec![Ast::Assign(o, n.to_string(), Box::new(a)), Ast::Var(n.to_string())])
            }),
            // builtins are evaluated eagerly too: `if` evaluates both branches
            1 => (e.clone(), e.clone()).prop_map(|(a, b)| {
                Ast::Call("if".into(), Box::new(Ast::Tuple(vec![Ast::Lit(RV::Bool(true)), a, b])))
            }),
        ]
    })
    .boxed()
}

fn arb_stmt(depth: u32) -> BoxedStrategy<Ast> {
    let e = arb_int_expr(depth);
    prop_oneof![
        4 => (select(vec!["x", "y", "z", "w"]), e.clone()).prop_map(|(n, a)| Ast::Assign(AssignOp::Set, n.to_string(), Box::new(a))),
        3 => (select(vec!["x", "y", "z", "w"]), select(AssignOp::ALL.to_vec()), e.clone()).prop_map(|(n, o, a)| Ast::Assign(o, n.to_string(), Box::new(a))),
        4 => e.clone(),
        2 => proptest::collection::vec(e.clone(), 2..4).prop_map(Ast::Tuple),
        // no short-circuit: the right operand is evaluated although the left decides
        1 => (any::<bool>(), any::<bool>()).prop_map(|(and, b)| {
            Ast::Bin(
                if and { BinOp::And } else { BinOp::Or },
                Box::new(Ast::Lit(RV::Bool(!and))),
                Box::new(Ast::Call("rec3".into(), Box::new(Ast::Lit(RV::Bool(b))))),
            )
        }),
        1 => Just(Ast::Empty),
    ]
    .boxed()
}

fn arb_program(depth: u32) -> BoxedStrategy<Ast> {
    prop_oneof![
        6 => proptest::collection::vec(arb_stmt(depth), 2..6).prop_map(Ast::Chain),
        1 => proptest::collection::vec(arb_stmt(depth), 2..4).prop_map(Ast::Tuple),
        1 => arb_stmt(depth),
    ]
    .boxed()
}

fn arb_ctx() -> BoxedStrategy<Ctx> {
    (
        proptest::collection::vec(proptest::option::weighted(0.6, prop_oneof![4 => (0i64..10).prop_map(RV::Int), 1 => gen::arb_scalar()]), 3..=3),
        any::<bool>(),
    )
        .prop_map(|(vs, rec3_bool)| {
            let mut c = Ctx::new(Kind::HashMap);
            for (n, v) in ["x", "y", "z"].iter().zip(vs) {
                if let Some(v) = v {
                    c.vars.insert(n.to_string(), v);
                }
            }
            c.funcs.insert("rec1".into(), UF::Identity);
            c.funcs.insert("rec2".into(), UF::Tag(2));
            c.funcs.insert("rec3".into(), if rec3_bool { UF::Identity } else { UF::Const(RV::Int(3)) });
            c.funcs.insert("fail1".into(), UF::Fail(1));
            c.funcs.insert("fail2".into(), UF::Fail(2));
            c.funcs.insert("floor".into(), UF::Fail(3));
            c.funcs.insert("len".into(), UF::IntPlus5);
            c
        })
        .boxed()
}

fn arb_case(depth: u32) -> BoxedStrategy<Case> {
    (arb_program(depth), gen::arb_bits(), arb_ctx()).prop_map(|(ast, bits, ctx)| Case { ast, bits, ctx }).boxed()
}

fn effect_count(a: &Ast) -> (usize, usize) {
    // (assignments, user-function calls) — syntactic
    use Ast::*;
    match a {
        Lit(_) | Var(_) | Empty | Opaque(_) | Malformed(_) => (0, 0),
        Call(n, x) => {
            let (a1, c1) = effect_count(x);
            (a1, c1 + if n.starts_with("rec") || n.starts_with("fail") || n == "floor" || n == "len" { 1 } else { 0 })
        },
        Neg(x) | Not(x) | Paren(x) => effect_count(x),
        Bin(_, l, r) => {
            let (a1, c1) = effect_count(l);
            let (a2, c2) = effect_count(r);
            (a1 + a2, c1 + c2)
        },
        Assign(_, _, e) => {
            let (a1, c1) = effect_count(e);
            (a1 + 1, c1)
        },
        Tuple(v) | Chain(v) => v.iter().map(effect_count).fold((0, 0), |x, y| (x.0 + y.0, x.1 + y.1)),
    }
}

pub fn case_json(src: &str, ctx: &Ctx) -> J {
    json!({"kind": "program", "src": src, "ctx": common::ctx_to_json(ctx)})
}

/// Evaluate `src` mutably in the real context built from `ctx` and compare (result, final
/// context, call log) with the reference interpreter run on the reference parse of `src`.
pub fn check_source(prop: &str, src: &str, ctx: &Ctx, expected_ast: Option<&Ast>, l: &mut Local) -> Outcome {
    check_source_with(prop, src, ctx, expected_ast, &["x", "y", "z", "w", "a", "b", "c"], prop == "C08", l)
}

/// As `check_source`, with the variable names probed in the final context and whether C08's own
/// non-triviality labels are recorded (other properties reuse the comparison with their own rule).
pub fn check_source_with(
    prop: &str,
    src: &str,
    ctx: &Ctx,
    expected_ast: Option<&Ast>,
    probe_names: &[&str],
    c08_labels: bool,
    l: &mut Local,
) -> Outcome {
    let toks = match tok::lex(src) {
        Ok(o) if !o.d6 => o.toks,
        _ => return Ok(()),
    };
    let ast = match refmodel::parse::classify(&toks) {
        refmodel::parse::Class::WellFormed(a) => a.strip_parens(),
        _ => {
            l.label("not in the claimed domain");
            return Ok(());
        },
    };
    if let Some(e) = expected_ast {
        if !e.same(&ast) {
            return fail(format!("HARNESS/{}: renderer and reference parser disagree", prop), e.sexp(), ast.sexp(), case_json(src, ctx), src.len());
        }
    }
    let mut model = ctx.clone();
    // the order inside `x op= e` with x unbound (D15) is asserted by C08 only
    let exp = refmodel::interp::run_full_opts(&ast, &mut model, true, matrix::unit(), c08_labels);
    if let Err(e) = &exp.result {
        if e.is_unclaimed() {
            l.label("unclaimed (D8 / D11 / D15) reached");
            return Ok(());
        }
    }
    let log = new_log();
    let mut real = build_hashmap(ctx, &log);
    let tree = match vcore::catch(|| evalexpr::build_operator_tree::<DefaultNumericTypes>(src)) {
        Ok(Ok(t)) => t,
        Ok(Err(e)) => {
            return fail(format!("{}/well-formed program rejected", prop), ast.sexp(), format!("Err({:?})", e), case_json(src, ctx), src.len())
        },
        Err(p) => return fail(format!("{}/panic {}", prop, p.signature()), "tree", p.message, case_json(src, ctx), src.len()),
    };
    if !normalise(&tree).same(&ast) {
        // C02 / C05's business; the evaluation comparison would be meaningless
        l.label("tree differs from the reference parse (C02/C05)");
        return Ok(());
    }
    let got = match vcore::catch(|| tree.eval_with_context_mut(&mut real)) {
        Ok(r) => r,
        Err(p) => return fail(format!("{}/panic {}", prop, p.signature()), outcome_canon(&exp.result), p.message, case_json(src, ctx), src.len()),
    };
    let got_log = take_log(&log);
    let got_rr = adapt::map_result(&got);
    // result: exact for the distinguishable kinds
    let mut result_ok = outcome_matches(&exp.result, &got_rr);
    if result_ok {
        if let (Err(RE::Arith), Err(e)) = (&exp.result, &got) {
            if let (Some(a), Some(b)) = (&exp.arith_operands, arith_operands(e)) {
                result_ok = a.len() == b.len() && a.iter().zip(&b).all(|(x, y)| x.same(y));
            }
        }
    }
    let (n_assign, n_calls) = effect_count(&ast);
    let failing = exp.result.is_err();
    if c08_labels && n_assign + n_calls >= 2 && (failing && !exp.log.is_empty() || exp.log.len() >= 3 || (failing && exp.assignments_reached >= 1)) {
        l.label(">= 2 effects with a failure after an effect, or >= 3 logged calls");
        l.nontrivial_key(src);
    }
    if c08_labels {
        if failing {
            l.label("evaluation fails");
        } else {
            l.label("evaluation succeeds");
        }
    }
    if !result_ok {
        let what = match (&exp.result, &got_rr) {
            (Err(_), Err(_)) => "a different error wins",
            (Ok(_), Ok(_)) => "different value",
            (Ok(_), Err(_)) => "error where a value is expected",
            (Err(_), Ok(_)) => "value where an error is expected",
        };
        return fail(
            format!("{}/result: {}", prop, what),
            format!("{} {:?}", outcome_canon(&exp.result), exp.arith_operands.as_ref().map(|v| v.iter().map(|x| x.canon()).collect::<Vec<_>>())),
            format!("{} ({:?})", outcome_canon(&got_rr), got.as_ref().err().map(map_err).map(|e| e.canon())),
            case_json(src, ctx),
            src.len(),
        );
    }
    if !log_same(&exp.log, &got_log) {
        let what = if got_log.len() > exp.log.len() {
            "more user-function calls than the reference (something evaluated twice or after the failure)"
        } else if got_log.len() < exp.log.len() {
            "fewer user-function calls than the reference (something skipped)"
        } else {
            "user functions called in a different order or with different arguments"
        };
        return fail(format!("{}/call log: {}", prop, what), log_describe(&exp.log), log_describe(&got_log), case_json(src, ctx), src.len());
    }
    let probes: Vec<String> = probe_names.iter().map(|s| s.to_string()).collect();
    let obs = observe(&real, &probes, &[]);
    take_log(&log);
    if let Some(d) = state_diff(&obs, &model) {
        return fail(format!("{}/final context differs", prop), model.describe(), d, case_json(src, ctx), src.len());
    }
    // "exactly once" holds through every entry point: one typed tree-level and one typed
    // string-level `_mut` entry point (chosen by the source text) must leave the same call log and
    // the same final context as the reference; what they *return* is C12's subject.
    if c08_labels {
        let k = vcore::hash_str(src) as usize;
        let ty = crate::entry::Ty::ALL[1 + k % 7];
        for string_level in [false, true] {
            let log2 = new_log();
            let mut real2 = build_hashmap(ctx, &log2);
            let ran = vcore::catch(|| {
                if string_level {
                    let _ = crate::entry::str_mut(ty, src, &mut real2);
                } else {
                    let _ = crate::entry::node_mut(ty, &tree, &mut real2);
                }
            });
            if ran.is_err() {
                l.label("panic handed to C01");
                return Ok(());
            }
            let got_log2 = take_log(&log2);
            let which = format!("eval{}_with_context_mut ({})", ty.name(), if string_level { "string level" } else { "tree level" });
            if !log_same(&exp.log, &got_log2) {
                return fail(
                    format!("{}/call log through a typed entry point differs (something evaluated twice or skipped)", prop),
                    log_describe(&exp.log),
                    format!("{} via {}", log_describe(&got_log2), which),
                    case_json(src, ctx),
                    src.len(),
                );
            }
            let obs2 = observe(&real2, &probes, &[]);
            take_log(&log2);
            if let Some(d) = state_diff(&obs2, &model) {
                return fail(
                    format!("{}/final context through a typed entry point differs", prop),
                    model.describe(),
                    format!("{} via {}", d, which),
                    case_json(src, ctx),
                    src.len(),
                );
            }
        }
        l.label("typed entry points compared (call log, final context)");
    }
    Ok(())
}

fn check_case(c: &Case, l: &mut Local) -> Outcome {
    let toks = render_tokens(&c.ast, &mut BitChoices::new(&c.bits));
    let src = tok::render_spaced(&toks);
    check_source("C08", &src, &c.ctx, Some(&c.ast), l)
}

pub fn run(rep: &Report) {
    rep.set_rule(
        "random programs built from assignments (all 9 operators), recording user functions rec1..rec3, failing user \
         functions fail1/fail2, unknown variables and functions with distinct names, k/0 with distinct k, integer \
         arithmetic, tuples, chains, assignments inside operand positions, eager `if`, and `false && rec3(..)` (no \
         short-circuit), over contexts with 0..3 bound variables; oracle: the reference interpreter's triple (result \
         — exact variable / function name, exact custom message, exact operands of the failing integer operation —, \
         final variable map, ordered call log with arguments); the same call log and final variables are required \
         through one typed string-level and one typed tree-level `_mut` entry point per program (\"exactly once\" \
         through every entry point). Non-trivial: >= 2 effects and a failure after at \
         least one effect, or >= 3 logged calls.",
    );
    rep.assume("user functions are deterministic and their only side effect is the harness-owned call log");
    // fixed programs from the property text and the design
    let mut ctx0 = Ctx::new(Kind::HashMap);
    ctx0.funcs.insert("rec1".into(), UF::Identity);
    ctx0.funcs.insert("rec2".into(), UF::Tag(2));
    ctx0.funcs.insert("rec3".into(), UF::Identity);
    ctx0.funcs.insert("fail1".into(), UF::Fail(1));
    ctx0.funcs.insert("fail2".into(), UF::Fail(2));
    ctx0.vars.insert("x".into(), RV::Int(1));
    let fixed = [
        "false && rec3(true)",
        "true || rec3(false)",
        "rec1(rec2(x), fail1(1))",
        "x = 5; y = x + nope; z = 1",
        "x = 2; fail1(x); x = 3",
        "rec1(1) + rec1(2) * rec1(3)",
        "(rec1(1), fail2(2), rec1(3))",
        "x += rec1((x = 5; x))",
        "x = rec1(1) + 10 / 0 + rec1(2)",
        "rec1(1) + (12 / 0) + (13 / 0)",
        "if(true, rec1(1), rec1(2))",
        "nofn1(rec1(1)) + rec1(2)",
        "u1 + rec1(1)",
        "rec1(1) + u1 + rec1(2)",
        "x = 1; x = 2.5; x = 3",
        "y = rec1(7); y += fail1(y); y = 0",
    ];
    common::enumerate(rep, "fixed", fixed.len() as u64, 1, &|i, l| {
        l.sample(16, || json!(fixed[i as usize]));
        check_source("C08", fixed[i as usize], &ctx0, None, l)
    });
    let n = rep.tier.pick(400_000u64, 20_000_000);
    let depth = rep.tier.pick(3u32, 5);
    common::random_search(rep, "programs", 80, n, &move || arb_case(depth), &|c: &Case, l| {
        l.sample(3, || json!(tok::render_spaced(&render_tokens(&c.ast, &mut refmodel::ast::Minimal))));
        check_case(c, l)
    });
}

pub fn replay(case: &J, rep: &Report) {
    let mut l = Local::default();
    let src = case["src"].as_str().unwrap_or_else(|| common::bad_case("src"));
    let ctx = common::ctx_from_json(&case["ctx"]).unwrap_or_else(|| common::bad_case("ctx"));
    let r = check_source("C08", src, &ctx, None, &mut l);
    l.evaluations = 1;
    rep.merge(l);
    if let Err(f) = r {
        rep.fail("replay", &f.signature, f.case, f.expected, f.actual, f.size);
    }
}
