//! C02 — precedence and associativity alone determine the operator tree.

use std::collections::BTreeSet;
use std::sync::Mutex;

use proptest::prelude::*;
use refmodel::ast::{render_tokens, AssignOp, Ast, BinOp, BitChoices, Minimal};
use refmodel::gen::{self, AstCfg};
use refmodel::parse::{classify, Class};
use refmodel::tok::{self, Tok};
use vcore::serde_json::{json, Value as J};
use vcore::{Local, Report};

use crate::common::{self, fail, Outcome};
use crate::structure::{compare_tree, has_separator, tokens_case, tokens_from_case};

/// Count operators in a token sequence (for the non-triviality rule).
fn operator_count(toks: &[Tok]) -> usize {
    toks.iter().filter(|t| t.is_pure_binary() || t.is_assignment() || matches!(t, Tok::Minus | Tok::Not)).count()
}

/// Non-trivial: >= 2 operators, or a prefix/call next to a binary operator.
fn nontrivial(toks: &[Tok]) -> bool {
    if operator_count(toks) >= 2 {
        return true;
    }
    let has_call = toks.windows(2).any(|w| w[0].is_ident() && w[1].left_sided());
    has_call && operator_count(toks) >= 1
}

/// The claimed token sequence `toks` must build into exactly the reference tree.
pub fn check_tokens(toks: &[Tok], sub: &str, l: &mut Local) -> Outcome {
    match classify(toks) {
        Class::WellFormed(ast) => {
            l.label("claimed: well-formed");
            if nontrivial(toks) {
                l.nontrivial_direct += 1;
            }
            let src = tok::render_spaced(toks);
            let expected = ast.strip_parens();
            match compare_tree(&src, &expected) {
                Ok(()) => Ok(()),
                Err((kind, got)) => fail(
                    format!("C02/{}: {}", sub, kind),
                    expected.sexp(),
                    got,
                    tokens_case(toks),
                    toks.len(),
                ),
            }
        },
        Class::IllFormed(_) => {
            l.label("ill-formed (C13's domain)");
            Ok(())
        },
        Class::Unclaimed(w) => {
            l.label(match w {
                "D1" => "unclaimed D1 (assignment to a non-identifier)",
                "D2" => "unclaimed D2 (adjacent assignment operators)",
                "D3" => "unclaimed D3 (x ^ -y ^ z)",
                "D4" => "unclaimed D4 (! after an operand)",
                _ => "unclaimed other",
            });
            Ok(())
        },
    }
}

/// Root-cause key of a structural disagreement: the sequence of token *classes*.
pub fn shape_signature(toks: &[Tok]) -> String {
    let mut s = String::new();
    for t in toks.iter().take(12) {
        if !s.is_empty() {
            s.push(' ');
        }
        s.push_str(&match t {
            Tok::Ident(_) => "id".to_string(),
            Tok::Int(_) | Tok::Float(_) | Tok::Bool(_) | Tok::Str(_) => "lit".to_string(),
            other => other.text(),
        });
    }
    s
}

fn matrix_ops() -> Vec<Tok> {
    let mut v: Vec<Tok> = BinOp::ALL.iter().map(|b| b.tok()).collect();
    v.extend([Tok::Assign, Tok::PlusAssign, Tok::HatAssign]);
    v
}

fn prefix_toks(p: u64) -> Vec<Tok> {
    match p {
        0 => vec![],
        1 => vec![Tok::Minus],
        _ => vec![Tok::Not],
    }
}

/// Operand forms for the pair matrix: a, -a, !a, - -a, !-a, f a, f(a), (a)
fn operand_form(k: u64, name: &str) -> Vec<Tok> {
    let id = Tok::Ident(name.to_string());
    match k {
        0 => vec![id],
        1 => vec![Tok::Minus, id],
        2 => vec![Tok::Not, id],
        3 => vec![Tok::Minus, Tok::Minus, id],
        4 => vec![Tok::Not, Tok::Minus, id],
        5 => vec![Tok::Ident("f".into()), id],
        6 => vec![Tok::Ident("f".into()), Tok::LParen, id, Tok::RParen],
        _ => vec![Tok::LParen, id, Tok::RParen],
    }
}

fn no_sequence_cfg(depth: u32) -> AstCfg {
    let mut c = AstCfg::structural(depth);
    c.sequences = false;
    c.opaque = true;
    c
}

/// Long spines: one brace level with many operators along one path — prefix runs, `=` chains,
/// juxtaposed calls, ascending-precedence chains, long left-associative chains.
fn arb_spine() -> BoxedStrategy<AstCase> {
    let var = |i: usize| Ast::Var(["a", "b", "c", "x"][i % 4].to_string());
    let prefix_run = proptest::collection::vec(any::<bool>(), 1..48).prop_map(move |ops| {
        let mut e = var(0);
        for neg in ops {
            e = if neg { Ast::Neg(Box::new(e)) } else { Ast::Not(Box::new(e)) };
        }
        e
    });
    let assign_chain = (1usize..40).prop_map(move |n| {
        let mut e = Ast::Lit(refmodel::value::RV::Int(1));
        for i in 0..n {
            e = Ast::Assign(AssignOp::Set, ["a", "b", "c", "x"][i % 4].to_string(), Box::new(e));
        }
        e
    });
    let call_chain = (1usize..40, any::<bool>()).prop_map(move |(n, g)| {
        let mut e = var(1);
        for i in 0..n {
            e = Ast::Call(if g && i % 2 == 0 { "g" } else { "f" }.to_string(), Box::new(e));
        }
        e
    });
    // r = a || b && c == d + e * <prefix run> f ^ g  (every precedence level once, then a run)
    let ascending = (0usize..30, 0usize..12).prop_map(move |(run, assigns)| {
        let mut e = Ast::Bin(BinOp::Exp, Box::new(var(0)), Box::new(var(1)));
        for i in 0..run {
            e = if i % 3 == 2 { Ast::Not(Box::new(e)) } else { Ast::Neg(Box::new(e)) };
        }
        for op in [BinOp::Mul, BinOp::Add, BinOp::Eq, BinOp::And, BinOp::Or] {
            e = Ast::Bin(op, Box::new(var(2)), Box::new(e));
        }
        for i in 0..assigns {
            e = Ast::Assign(AssignOp::Set, ["a", "b", "c", "x"][i % 4].to_string(), Box::new(e));
        }
        e
    });
    // arbitrary right-nested binary chain (the renderer adds the parentheses the table requires)
    let right_nested = proptest::collection::vec(proptest::sample::select(BinOp::ALL.to_vec()), 1..40).prop_map(move |ops| {
        let mut e = var(3);
        for (i, op) in ops.into_iter().enumerate() {
            e = Ast::Bin(op, Box::new(var(i)), Box::new(e));
        }
        e
    });
    let left_nested = proptest::collection::vec(proptest::sample::select(BinOp::ALL.to_vec()), 1..60).prop_map(move |ops| {
        let mut e = var(3);
        for (i, op) in ops.into_iter().enumerate() {
            e = Ast::Bin(op, Box::new(e), Box::new(var(i)));
        }
        e
    });
    (prop_oneof![prefix_run, assign_chain, call_chain, ascending, right_nested, left_nested], gen::arb_bits())
        .prop_map(|(ast, bits)| AstCase { ast, bits })
        .boxed()
}

#[derive(Clone, Debug)]
pub struct AstCase {
    pub ast: Ast,
    pub bits: Vec<bool>,
}

/// Round trip: render with minimal and with redundant parentheses, both must build into `ast`.
pub fn check_ast(c: &AstCase, prop: &str, l: &mut Local) -> Outcome {
    let min = render_tokens(&c.ast, &mut Minimal);
    let red = render_tokens(&c.ast, &mut BitChoices::new(&c.bits));
    for (which, toks, tight) in [("minimal parentheses", &min, false), ("redundant parentheses", &red, false), ("minimal parentheses, no spaces", &min, true)] {
        // oracle self-consistency: the reference grammar must read the rendering back as `ast`
        match classify(toks) {
            Class::WellFormed(back) if back.strip_parens().same(&c.ast) => {},
            other => {
                return fail(
                    format!("HARNESS/{}: renderer and reference parser disagree", prop),
                    c.ast.sexp(),
                    format!("{:?}", other),
                    tokens_case(toks),
                    toks.len(),
                );
            },
        }
        let src = if tight { tok::render_tight(toks) } else { tok::render_spaced(toks) };
        if tight {
            // admissibility of the tight rendering, by the reference tokenizer
            match tok::lex(&src) {
                Ok(o) if o.toks == **toks => {},
                _ => continue,
            }
        }
        if let Err((kind, got)) = compare_tree(&src, &c.ast) {
            return fail(
                format!("{}/round-trip ({}): {}", prop, which, kind),
                c.ast.sexp(),
                got,
                json!({"kind": "tokens", "src": src}),
                toks.len(),
            );
        }
    }
    if red.len() > min.len() {
        l.label("redundant parentheses present");
    }
    if operator_count(&min) >= 2 {
        l.label(">= 2 operators");
        l.nontrivial_key(&tok::render_spaced(&min));
    }
    Ok(())
}

pub fn arb_ast_case(cfg: AstCfg) -> BoxedStrategy<AstCase> {
    (gen::arb_ast(&cfg), gen::arb_bits()).prop_map(|(ast, bits)| AstCase { ast, bits }).boxed()
}

pub fn run(rep: &Report) {
    rep.set_rule(
        "(a) complete operator matrix: every ordered triple of the 14 binary operators + {=, +=, ^=} with every \
         assignment of {none, -, !} to the four operand positions; every ordered pair with 8x8 operand forms \
         (a, -a, !a, - -a, !-a, f a, f(a), (a)); all 9 assignment operators x pairs of binary operators. (b) every \
         token sequence up to the length bound over the base alphabet without `,`/`;` (those belong to C05), \
         classified by the independent reference parser. (c) random ASTs rendered with minimal and with redundant \
         parentheses and without spaces, with D6 words as opaque operands; long spines (prefix runs, `=` chains, \
         juxtaposed calls, ascending-precedence chains up to 60 operators on one brace level). Oracle: \
         normalise(build_operator_tree(render(tokens))) == reference tree. Non-trivial: >= 2 \
         operators, or a call next to an operator; unclaimed (D1-D4) and ill-formed sequences are counted, not asserted.",
    );
    rep.assume("reference grammar = the documented precedence table; D1-D4 regions are not asserted");
    // (a) triples
    let ops = matrix_ops();
    let k = ops.len() as u64;
    let pairs_seen: Mutex<BTreeSet<(usize, usize)>> = Mutex::new(BTreeSet::new());
    let names = ["a", "b", "c", "d"];
    common::enumerate(rep, "matrix-triples", k * k * k * 81, 2048, &|i, l| {
        let mut r = i;
        let o: Vec<usize> = (0..3).map(|_| { let x = (r % k) as usize; r /= k; x }).collect();
        let p: Vec<u64> = (0..4).map(|_| { let x = r % 3; r /= 3; x }).collect();
        let mut toks = Vec::with_capacity(12);
        for j in 0..4 {
            toks.extend(prefix_toks(p[j]));
            toks.push(Tok::Ident(names[j].to_string()));
            if j < 3 {
                toks.push(ops[o[j]].clone());
            }
        }
        if i % 50021 == 7_777 {
            l.sample(2, || json!(tok::render_spaced(&toks)));
        }
        if i % 81 == 0 && o[0] < 14 && o[1] < 14 {
            pairs_seen.lock().unwrap().insert((o[0], o[1]));
        }
        check_tokens(&toks, "operator matrix", l)
    });
    // (a) pairs x operand forms
    common::enumerate(rep, "matrix-pairs", k * k * 8 * 8 * 8, 2048, &|i, l| {
        let mut r = i;
        let o1 = (r % k) as usize;
        r /= k;
        let o2 = (r % k) as usize;
        r /= k;
        let f1 = r % 8;
        r /= 8;
        let f2 = r % 8;
        r /= 8;
        let f3 = r % 8;
        let mut toks = operand_form(f1, "a");
        toks.push(ops[o1].clone());
        toks.extend(operand_form(f2, "b"));
        toks.push(ops[o2].clone());
        toks.extend(operand_form(f3, "c"));
        check_tokens(&toks, "operand forms", l)
    });
    // (a) all nine assignment operators in front of binary operator pairs
    common::enumerate(rep, "matrix-assign", 9 * 14 * 14, 64, &|i, l| {
        let a = AssignOp::ALL[(i % 9) as usize];
        let b1 = BinOp::ALL[((i / 9) % 14) as usize];
        let b2 = BinOp::ALL[(i / 126) as usize];
        let toks = vec![
            Tok::Ident("x".into()),
            a.tok(),
            Tok::Ident("a".into()),
            b1.tok(),
            Tok::Ident("b".into()),
            b2.tok(),
            Tok::Ident("c".into()),
        ];
        check_tokens(&toks, "assignment operators", l)
    });
    let seen = pairs_seen.lock().unwrap().len();
    rep.add_extra("binary_operator_pairs_covered", json!(format!("{} of 196", seen)));
    // (b) all short sequences without separators
    let alphabet: Vec<Tok> = gen::base_alphabet().into_iter().filter(|t| !matches!(t, Tok::Comma | Tok::Semi)).collect();
    let max_len = rep.tier.pick(7usize, 8);
    for len in 1..=max_len {
        let total = gen::count_sequences(alphabet.len(), len);
        common::enumerate(rep, "sequences", total, 8192, &|i, l| {
            let mut toks = Vec::with_capacity(len);
            gen::nth_sequence(&alphabet, len, i, &mut toks);
            check_tokens(&toks, "short sequence", l)
        });
    }
    rep.add_extra("sequence_bound", json!(format!("all sequences of length <= {} over {} symbols (no separators)", max_len, alphabet.len())));
    if rep.tier == vcore::Tier::Thorough {
        let ext: Vec<Tok> = gen::extended_alphabet().into_iter().filter(|t| !matches!(t, Tok::Comma | Tok::Semi)).collect();
        for len in 1..=6 {
            let total = gen::count_sequences(ext.len(), len);
            common::enumerate(rep, "sequences-extended", total, 8192, &|i, l| {
                let mut toks = Vec::with_capacity(len);
                gen::nth_sequence(&ext, len, i, &mut toks);
                check_tokens(&toks, "short sequence (extended alphabet)", l)
            });
        }
    }
    rep.set_exhaustive(true);
    // (c) random ASTs
    let n = rep.tier.pick(300_000u64, 10_000_000);
    let depth = rep.tier.pick(6u32, 12);
    common::random_search(rep, "random-asts", 20, n, &move || arb_ast_case(no_sequence_cfg(depth)), &|c: &AstCase, l| {
        l.sample(3, || json!({"ast": c.ast.sexp(), "minimal": tok::render_spaced(&render_tokens(&c.ast, &mut Minimal))}));
        check_ast(c, "C02", l)
    });
    let n_spine = rep.tier.pick(20_000u64, 300_000);
    common::random_search(rep, "long-spines", 21, n_spine, &arb_spine, &|c: &AstCase, l| {
        l.label("long spine");
        check_ast(c, "C02", l)
    });
    let _ = has_separator;
}

pub fn replay(case: &J, rep: &Report) {
    let mut l = Local::default();
    let toks = tokens_from_case(case);
    let r = check_tokens(&toks, "replay", &mut l);
    l.evaluations = 1;
    rep.merge(l);
    if let Err(f) = r {
        rep.fail("replay", &f.signature, f.case, f.expected, f.actual, f.size);
    }
}
