//! Shared driver code: random search with shrinking per signature, exhaustive sharded
//! enumeration, replay-case (de)serialisation of reference contexts and values.

use std::cell::{Cell, RefCell};
use std::fmt::Debug;

use proptest::strategy::BoxedStrategy;
use proptest::test_runner::{Config, RngSeed, TestCaseError, TestError, TestRunner};
use refmodel::interp::{Ctx, Kind, UF};
use refmodel::value::RV;
use vcore::serde_json::{json, Value as J};
use vcore::{mix, Local, Report, WorkQueue};

/// A failed case.
#[derive(Clone, Debug)]
pub struct Fail {
    pub signature: String,
    pub expected: String,
    pub actual: String,
    pub case: J,
    pub size: usize,
}

pub type Outcome = Result<(), Fail>;

pub fn fail(signature: impl Into<String>, expected: impl Into<String>, actual: impl Into<String>, case: J, size: usize) -> Outcome {
    Err(Fail { signature: signature.into(), expected: expected.into(), actual: actual.into(), case, size })
}

/// Random search: `cases` generated values in total, spread over all threads; each thread drives
/// its own proptest `TestRunner` seeded from (VERIF_SEED, salt, shard). A failure with a
/// signature not seen before is shrunk by proptest (the closure then only reports failures with
/// that same signature) and recorded; the search continues with the remaining cases.
pub fn random_search<T: Debug + Clone + 'static>(
    rep: &Report,
    subcheck: &str,
    salt: u64,
    cases: u64,
    strat: &(dyn Fn() -> BoxedStrategy<T> + Sync),
    check: &(dyn Fn(&T, &mut Local) -> Outcome + Sync),
) {
    let n = vcore::threads().min(cases.max(1) as usize).max(1);
    vcore::par_shards(n, |shard, n| {
        let mut remaining = cases / n as u64 + if (shard as u64) < cases % n as u64 { 1 } else { 0 };
        let local = RefCell::new(Local::default());
        let strategy = strat();
        let mut restarts = 0u64;
        while remaining > 0 && restarts < 12 {
            let cfg = Config {
                cases: remaining.min(u32::MAX as u64) as u32,
                rng_seed: RngSeed::Fixed(mix(rep.seed, salt.wrapping_mul(1_000_003).wrapping_add(shard as u64 * 101 + restarts))),
                failure_persistence: None,
                max_shrink_iters: 4000,
                max_global_rejects: 1 << 20,
                verbose: 0,
                ..Config::default()
            };
            let mut runner = TestRunner::new(cfg);
            let done = Cell::new(0u64);
            // signature being shrunk (None while searching)
            let target: RefCell<Option<String>> = RefCell::new(None);
            let result = runner.run(&strategy, |v| {
                let shrinking = target.borrow().is_some();
                if shrinking {
                    // do not count re-runs during shrinking
                    let mut scratch = Local::default();
                    return match check(&v, &mut scratch) {
                        Err(f) if Some(&f.signature) == target.borrow().as_ref() => {
                            Err(TestCaseError::fail(f.signature))
                        },
                        _ => Ok(()),
                    };
                }
                let mut l = local.borrow_mut();
                l.evaluations += 1;
                done.set(done.get() + 1);
                match check(&v, &mut l) {
                    Ok(()) => Ok(()),
                    Err(f) => {
                        if rep.seen(&f.signature) {
                            rep.fail(subcheck, &f.signature, f.case, f.expected, f.actual, f.size);
                            Ok(())
                        } else {
                            *target.borrow_mut() = Some(f.signature.clone());
                            Err(TestCaseError::fail(f.signature))
                        }
                    },
                }
            });
            match result {
                Ok(()) => break,
                Err(TestError::Fail(_, minimal)) => {
                    let mut scratch = Local::default();
                    match check(&minimal, &mut scratch) {
                        Err(f) => rep.fail(subcheck, &f.signature, f.case, f.expected, f.actual, f.size),
                        Ok(()) => {
                            // flaky: must not happen (no clocks, no own RNG)
                            rep.inconclusive(&format!("{}: shrunk case no longer fails: {:?}", subcheck, minimal));
                        },
                    }
                    remaining = remaining.saturating_sub(done.get());
                    restarts += 1;
                },
                Err(TestError::Abort(why)) => {
                    rep.inconclusive(&format!("{}: proptest aborted: {}", subcheck, why));
                    break;
                },
            }
        }
        rep.merge(local.into_inner());
    });
}

/// Exhaustive enumeration of items 0..total, sharded dynamically. Failures are recorded by
/// signature (smallest witness kept); nothing stops the enumeration.
pub fn enumerate(
    rep: &Report,
    subcheck: &str,
    total: u64,
    chunk: u64,
    check: &(dyn Fn(u64, &mut Local) -> Outcome + Sync),
) {
    let q = WorkQueue::new(total, chunk);
    let n = vcore::threads();
    vcore::par_shards(n, |_, _| {
        let mut local = Local::default();
        while let Some(range) = q.take() {
            for i in range {
                local.evaluations += 1;
                if let Err(f) = check(i, &mut local) {
                    rep.fail(subcheck, &f.signature, f.case, f.expected, f.actual, f.size);
                }
            }
        }
        rep.merge(local);
    });
}

// ---------------------------------------------------------------------------------------------
// JSON encodings for replay cases
// ---------------------------------------------------------------------------------------------

pub fn uf_to_json(f: &UF) -> J {
    match f {
        UF::Identity => json!({"k": "identity"}),
        UF::Const(v) => json!({"k": "const", "v": v.canon()}),
        UF::Tag(k) => json!({"k": "tag", "n": k}),
        UF::Fail(k) => json!({"k": "fail", "n": k}),
        UF::IntPlus5 => json!({"k": "intplus5"}),
        UF::FirstNumber => json!({"k": "firstnumber"}),
        UF::NotFound(n) => json!({"k": "notfound", "name": n}),
        UF::Raise(k) => json!({"k": "raise", "n": k}),
    }
}

pub fn uf_from_json(j: &J) -> Option<UF> {
    Some(match j["k"].as_str()? {
        "identity" => UF::Identity,
        "const" => UF::Const(RV::from_canon(j["v"].as_str()?)?),
        "tag" => UF::Tag(j["n"].as_i64()?),
        "fail" => UF::Fail(j["n"].as_u64()? as u32),
        "intplus5" => UF::IntPlus5,
        "firstnumber" => UF::FirstNumber,
        "notfound" => UF::NotFound(j["name"].as_str()?.to_string()),
        "raise" => UF::Raise(j["n"].as_u64()? as u8),
        _ => return None,
    })
}

pub fn ctx_to_json(c: &Ctx) -> J {
    let vars: Vec<J> = c.vars.iter().map(|(k, v)| json!([k, v.canon()])).collect();
    let funcs: Vec<J> = c.funcs.iter().map(|(k, f)| json!([k, uf_to_json(f)])).collect();
    json!({
        "kind": format!("{:?}", c.kind),
        "builtins_disabled": c.builtins_disabled,
        "vars": vars,
        "funcs": funcs,
    })
}

pub fn ctx_from_json(j: &J) -> Option<Ctx> {
    let kind = match j["kind"].as_str()? {
        "HashMap" => Kind::HashMap,
        "Empty" => Kind::Empty,
        "EmptyWithBuiltins" => Kind::EmptyWithBuiltins,
        "StorageLess" => Kind::StorageLess,
        _ => return None,
    };
    let mut c = Ctx::new(kind);
    c.builtins_disabled = j["builtins_disabled"].as_bool()?;
    for e in j["vars"].as_array()? {
        c.vars.insert(e[0].as_str()?.to_string(), RV::from_canon(e[1].as_str()?)?);
    }
    for e in j["funcs"].as_array()? {
        c.funcs.insert(e[0].as_str()?.to_string(), uf_from_json(&e[1])?);
    }
    Some(c)
}

pub fn rv_json(v: &RV) -> J {
    J::String(v.canon())
}

pub fn rv_from_json(j: &J) -> Option<RV> {
    RV::from_canon(j.as_str()?)
}

/// Replay-case error.
pub fn bad_case(what: &str) -> ! {
    eprintln!("HARNESS ERROR: replay case malformed: {}", what);
    std::process::exit(2)
}
