//! C06 — literals denote exactly their value.

use adapt::{map_result, normalise};
use proptest::prelude::*;
use proptest::sample::select;
use refmodel::ast::{Ast, BinOp};
use refmodel::gen;
use refmodel::tok::{self, classify_word, quote, WordClass};
use refmodel::value::{outcome_canon, RR, RV};
use vcore::serde_json::{json, Value as J};
use vcore::{Local, Report};

use crate::common::{self, fail, Outcome};
use crate::structure::build;

fn eval(src: &str) -> Result<RR, vcore::PanicInfo> {
    vcore::catch(|| map_result(&evalexpr::eval(src)))
}

fn src_case(sub: &str, src: &str) -> J {
    json!({"kind": "source", "sub": sub, "src": src})
}

fn expect_value(sub: &str, sig: &str, src: &str, expected: &RV) -> Outcome {
    match eval(src) {
        Err(p) => fail(
            format!("C06/{} panic {}", sub, p.signature()),
            format!("Ok({})", expected.canon()),
            format!("panic: {}", p.message),
            src_case(sub, src),
            src.len(),
        ),
        Ok(Ok(v)) if v.same(expected) => Ok(()),
        Ok(other) => fail(
            format!("C06/{}: {}", sub, sig),
            format!("Ok({})", expected.canon()),
            outcome_canon(&other),
            src_case(sub, src),
            src.len(),
        ),
    }
}

fn expect_build_error(sub: &str, src: &str, variant: &str) -> Outcome {
    match eval(src) {
        Err(p) => fail(
            format!("C06/{} panic {}", sub, p.signature()),
            format!("Err({})", variant),
            format!("panic: {}", p.message),
            src_case(sub, src),
            src.len(),
        ),
        // the statement only says "is an error": any error is accepted, the expected variant is
        // kept for the report
        Ok(Err(_)) => Ok(()),
        Ok(other) => fail(
            format!("C06/{}: expected {}", sub, variant),
            format!("Err({})", variant),
            outcome_canon(&other),
            src_case(sub, src),
            src.len(),
        ),
    }
}

// ---------------------------------------------------------------------------------------------
// strings
// ---------------------------------------------------------------------------------------------

#[derive(Clone, Debug)]
struct StrCase {
    text: String,
    /// position (in chars, mapped monotonically) and character of a bad escape to plant
    bad_pos: u16,
    bad_char: char,
}

fn check_string(c: &StrCase, l: &mut Local) -> Outcome {
    let t = &c.text;
    let q = quote(t);
    let interesting = t.contains('"') || t.contains('\\') || t.contains("//") || t.contains("/*") || t.chars().any(tok::is_op_char) || t.contains('\n');
    if interesting {
        l.label("string with quote / backslash / operator / comment marker / newline");
        l.nontrivial_key(t);
    }
    expect_value("string", "string literal does not denote its text", &q, &RV::Str(t.clone()))?;
    // embedded without spaces: comparison and concatenation
    expect_value("string-embedded", "string literal next to operators", &format!("{}=={}", q, q), &RV::Bool(true))?;
    expect_value("string-embedded", "string literal next to operators", &format!("{}+{}", q, q), &RV::Str(format!("{}{}", t, t)))?;
    expect_value("string-embedded", "string literal as call argument", &format!("len{}==len({})", q, q), &RV::Bool(true))?;
    // negative: one illegal escape planted at a character boundary of t
    if c.bad_char != '\\' && c.bad_char != '"' {
        let chars: Vec<char> = t.chars().collect();
        let at = (c.bad_pos as usize * (chars.len() + 1)) >> 16;
        let prefix: String = chars[..at].iter().collect();
        let suffix: String = chars[at..].iter().collect();
        let pq = quote(&prefix);
        let sq = quote(&suffix);
        let src = format!("{}\\{}{}", &pq[..pq.len() - 1], c.bad_char, &sq[1..]);
        l.label("negative: illegal escape");
        expect_build_error("string-bad-escape", &src, "IllegalEscapeSequence")?;
    }
    // negative: closing quote removed
    let open = &q[..q.len() - 1];
    l.label("negative: missing closing quote");
    // a trailing lone backslash before EOF is an illegal escape, anything else is unmatched
    expect_build_error("string-unterminated", open, "UnmatchedDoubleQuote")?;
    Ok(())
}

// ---------------------------------------------------------------------------------------------
// integers
// ---------------------------------------------------------------------------------------------

fn mixed_case_hex(n: i64, mask: u32) -> String {
    let h = format!("{:x}", n);
    h.chars()
        .enumerate()
        .map(|(i, c)| if mask >> (i % 32) & 1 == 1 { c.to_ascii_uppercase() } else { c })
        .collect()
}

fn check_int(n: i64, zeros: usize, mask: u32, l: &mut Local) -> Outcome {
    assert!(n >= 0);
    let v = RV::Int(n);
    l.nontrivial_key(&format!("int|{}", n));
    expect_value("int-decimal", "decimal literal", &n.to_string(), &v)?;
    expect_value("int-decimal", "decimal literal with leading zeros", &format!("{}{}", "0".repeat(zeros), n), &v)?;
    expect_value("int-hex", "hex literal (lower case)", &format!("0x{:x}", n), &v)?;
    expect_value("int-hex", "hex literal (upper case digits)", &format!("0x{:X}", n), &v)?;
    expect_value("int-hex", "hex literal (mixed case digits)", &format!("0x{}", mixed_case_hex(n, mask)), &v)?;
    expect_value("int-hex", "hex literal with leading zeros", &format!("0x{}{:x}", "0".repeat(zeros), n), &v)?;
    // decimal == hex, written tight
    expect_value("int-embedded", "decimal and hex compared without spaces", &format!("{}==0x{:x}", n, n), &RV::Bool(true))?;
    l.label("integer: 7 renderings");
    Ok(())
}

// ---------------------------------------------------------------------------------------------
// floats
// ---------------------------------------------------------------------------------------------

/// Renderings of a finite non-negative double that must denote exactly it (round-tripping), and
/// renderings whose value is defined by std's parse ("nearest double").
fn float_renderings(x: f64, k: usize) -> Vec<(String, bool)> {
    let mut v: Vec<(String, bool)> = Vec::new();
    let shortest = format!("{:?}", x);
    v.push((shortest.clone(), true));
    let e = format!("{:e}", x); // e.g. 1.5e-7, 1e0
    v.push((e.clone(), true));
    v.push((e.replace('e', "E"), true));
    if let Some(pos) = e.find('e') {
        let (m, ex) = e.split_at(pos);
        let ex = &ex[1..];
        if !ex.starts_with('-') {
            v.push((format!("{}e+{}", m, ex), true));
            v.push((format!("{}E+{}", m, ex), true));
            v.push((format!("{}e+00{}", m, ex), true));
        } else {
            v.push((format!("{}e-00{}", m, &ex[1..]), true));
        }
        // trailing dot before the exponent: `5.e3`
        if !m.contains('.') {
            v.push((format!("{}.{}", m, &e[pos..]), true));
        }
    }
    // fixed notation with k digits: not round-tripping in general
    if x < 1e22 {
        let fixed = format!("{:.*}", k, x);
        v.push((fixed.clone(), false));
        if let Some(stripped) = fixed.strip_prefix("0.") {
            v.push((format!(".{}", stripped), false)); // leading dot
        }
        if k == 0 {
            v.push((format!("{}.", fixed), false)); // trailing dot
        }
    }
    v
}

fn check_float_text(text: &str, must_equal: Option<f64>, l: &mut Local) -> Outcome {
    // the reference classification of the text decides what it denotes
    let lexed = match tok::lex(text) {
        Ok(o) if o.d6 => {
            l.label("unclaimed word (D6)");
            return Ok(());
        },
        Ok(o) if o.toks.len() == 1 => o.toks[0].clone(),
        other => {
            return fail(
                "HARNESS/C06: float rendering is not one reference token",
                "one literal token",
                format!("{:?}", other),
                src_case("float", text),
                text.len(),
            )
        },
    };
    let expected = match lexed.literal_value() {
        Some(v) => v,
        None => {
            return fail("HARNESS/C06: float rendering is not a literal", "a literal", format!("{:?}", lexed), src_case("float", text), text.len())
        },
    };
    if let (Some(x), RV::Float(y)) = (must_equal, &expected) {
        if x.to_bits() != y.to_bits() {
            return fail(
                "HARNESS/C06: std does not round-trip its own rendering",
                format!("{:?}", x),
                format!("{:?}", y),
                src_case("float", text),
                text.len(),
            );
        }
    }
    let signed_exp = text.contains("e+") || text.contains("e-") || text.contains("E+") || text.contains("E-");
    if signed_exp {
        l.label("float with a signed exponent");
    }
    l.nontrivial_key(&format!("float|{}", text));
    let sig = if signed_exp { "float literal with signed exponent" } else { "float literal" };
    expect_value("float", sig, text, &expected)?;
    // embeddings without spaces
    let lit = Ast::Lit(expected.clone());
    let two = Ast::Lit(RV::Int(2));
    let embeds: Vec<(String, Ast)> = vec![
        (format!("{}-2", text), Ast::Bin(BinOp::Sub, Box::new(lit.clone()), Box::new(two.clone()))),
        (format!("{}+2", text), Ast::Bin(BinOp::Add, Box::new(lit.clone()), Box::new(two.clone()))),
        (format!("2-{}", text), Ast::Bin(BinOp::Sub, Box::new(two.clone()), Box::new(lit.clone()))),
        (format!("a-{}", text), Ast::Bin(BinOp::Sub, Box::new(Ast::Var("a".into())), Box::new(lit.clone()))),
        (format!("{}*{}", text, text), Ast::Bin(BinOp::Mul, Box::new(lit.clone()), Box::new(lit.clone()))),
        (format!("{}-{}", text, text), Ast::Bin(BinOp::Sub, Box::new(lit.clone()), Box::new(lit.clone()))),
        (format!("({})", text), lit.clone()),
        (format!("f({})", text), Ast::Call("f".into(), Box::new(lit.clone()))),
        (format!("{},{}", text, text), Ast::Tuple(vec![lit.clone(), lit.clone()])),
        (format!("-{}", text), Ast::Neg(Box::new(lit.clone()))),
    ];
    for (src, expected_ast) in embeds {
        l.label("literal embedded between tokens without spaces");
        check_tree("float-embedded", "embedded literal", &src, &expected_ast)?;
    }
    Ok(())
}

fn check_tree(sub: &str, sig: &str, src: &str, expected: &Ast) -> Outcome {
    match build(src) {
        Err(p) => fail(
            format!("C06/{} panic {}", sub, p.signature()),
            expected.sexp(),
            format!("panic: {}", p.message),
            src_case(sub, src),
            src.len(),
        ),
        Ok(Err(e)) => fail(format!("C06/{}: {} rejected", sub, sig), expected.sexp(), format!("Err({:?})", e), src_case(sub, src), src.len()),
        Ok(Ok(t)) => {
            let got = normalise(&t);
            if got.same(expected) {
                return Ok(());
            }
            // The tree is only a means here: C06 is about what the literals denote. A tree of another
            // shape (C02's business, e.g. constants folded at build time) is accepted when the source
            // evaluates to exactly the value of the expected reading.
            let mut empty = refmodel::interp::Ctx::hashmap();
            let (want, _, _) = refmodel::interp::run(&expected.strip_parens(), &mut empty, true, crate::matrix::unit());
            if let (Ok(w), Ok(Ok(v))) = (&want, eval(src)) {
                if v.same(w) {
                    return Ok(());
                }
            }
            fail(format!("C06/{}: {} read differently", sub, sig), expected.sexp(), got.sexp(), src_case(sub, src), src.len())
        },
    }
}

/// Float texts straight from the grammar (D+ | D+.D* | D*.D+)([eE][+-]?D+)?
fn arb_float_text() -> BoxedStrategy<String> {
    let digits = |lo: usize, hi: usize| proptest::collection::vec(0u8..10, lo..hi).prop_map(|v| v.iter().map(|d| (b'0' + d) as char).collect::<String>());
    let mantissa = prop_oneof![
        2 => digits(1, 20),
        3 => (digits(1, 18), digits(0, 18)).prop_map(|(a, b)| format!("{}.{}", a, b)),
        2 => (digits(0, 4), digits(1, 18)).prop_map(|(a, b)| format!("{}.{}", a, b)),
    ];
    let exp = prop_oneof![
        3 => Just(String::new()),
        2 => (select(vec!["e", "E"]), select(vec!["", "+", "-"]), digits(1, 4)).prop_map(|(e, s, d)| format!("{}{}{}", e, s, d)),
        2 => (select(vec!["e", "E"]), select(vec!["+", "-"]), 290u32..330).prop_map(|(e, s, d)| format!("{}{}{}", e, s, d)),
    ];
    (mantissa, exp).prop_map(|(m, e)| format!("{}{}", m, e)).boxed()
}

// ---------------------------------------------------------------------------------------------
// words
// ---------------------------------------------------------------------------------------------

const WORD_ATOMS: [&str; 46] = [
    "a", "b", "x", "_", ".", "::", "#", "'", "0", "1", "9", "e", "E", "ä", "日", "本", "π", "α", "ß", "İ", "x1", "foo", "true",
    "false", "inf", "nan", "0x", "0X", "1e", "1_000", "1.2.3", "g", "$", "@", "?", "~", "`", "[", "]", "{", "}", ":", "\\", "T",
    "😀", "\u{200b}",
];

fn arb_word() -> BoxedStrategy<String> {
    prop_oneof![
        6 => proptest::collection::vec(select(WORD_ATOMS.to_vec()), 1..5).prop_map(|v| v.concat()),
        2 => select(vec![
            "1e", "0x", "1_000", "1.2.3", "0X1F", "true1", "e5", "1e5e", ".e1", "1.5.2", "0xg", "1e+", "e", "E", ".", "..", "1..", "0x1.5",
            "True", "FALSE", "truefalse", "1f", "1d", "1E", "0b1", "0o7", "١٢٣", "１２", "1e١", "0x١",
        ]).prop_map(|s| s.to_string()),
        1 => proptest::collection::vec(any::<char>(), 1..4).prop_map(|v| v.into_iter().filter(|c| tok::is_word_char(*c)).collect::<String>()),
    ]
    .boxed()
}

/// Characters an identifier word is generated from: alphanumerics and visible ASCII punctuation.
/// Invisible format / control characters (U+200B, U+FEFF, ...) are left out: the property names
/// the Unicode whitespace characters as separators but does not say that nothing else may be one.
fn claimed_word_char(c: char) -> bool {
    tok::is_word_char(c) && (c.is_alphanumeric() || (c.is_ascii_graphic() && !c.is_ascii_alphanumeric()) || c == '😀')
}

fn check_word(w: &str, l: &mut Local) -> Outcome {
    if w.is_empty() || !w.chars().all(claimed_word_char) {
        l.label("word with unclaimed characters skipped");
        return Ok(());
    }
    // a word ending in a mantissa+`e` could join a following sign; it stands alone here
    match classify_word(w) {
        WordClass::Unclaimed => {
            l.label("unclaimed word (D6)");
            Ok(())
        },
        WordClass::Ident => {
            l.label("identifier word");
            if w.chars().any(|c| c.is_ascii_digit()) {
                l.label("number look-alike identifier");
            }
            l.nontrivial_key(&format!("word|{}", w));
            check_tree("word", "a word that is no literal must be an identifier", w, &Ast::Var(w.to_string()))?;
            // and stays one when embedded
            check_tree(
                "word",
                "a word that is no literal must be an identifier",
                &format!("({})*2", w),
                &Ast::Bin(BinOp::Mul, Box::new(Ast::Var(w.to_string())), Box::new(Ast::Lit(RV::Int(2)))),
            )
        },
        WordClass::Bool(b) => {
            l.label("boolean word");
            expect_value("word", "true/false are the booleans", w, &RV::Bool(b))
        },
        WordClass::Int(i) => {
            l.label("integer word");
            expect_value("word", "integer word", w, &RV::Int(i))
        },
        WordClass::Float(f) => {
            l.label("float word");
            expect_value("word", "float word", w, &RV::Float(f))
        },
    }
}

#[derive(Clone, Debug)]
enum Case {
    Str(StrCase),
    Int(i64, usize, u32),
    FloatValue(f64, usize),
    FloatText(String),
    Word(String),
    /// prefix text, an escape sequence of another language's syntax, suffix text
    ForeignEscape(String, String, String),
}

/// "any other escape ... is an error": a literal containing an escape sequence that other
/// languages define (`\n`, `\x41`, `\u{D800}`, ...) is rejected, alone and next to operators.
fn check_foreign_escape(prefix: &str, esc: &str, suffix: &str, l: &mut Local) -> Outcome {
    let pq = quote(prefix);
    let sq = quote(suffix);
    let lit = format!("{}{}{}", &pq[..pq.len() - 1], esc, &sq[1..]);
    l.label("negative: escape sequence of another language");
    l.nontrivial_key(&format!("esc|{}", lit));
    expect_build_error("string-foreign-escape", &lit, "IllegalEscapeSequence")?;
    expect_build_error("string-foreign-escape", &format!("len({})+1", lit), "IllegalEscapeSequence")?;
    expect_build_error("string-foreign-escape", &format!("a={};a", lit), "IllegalEscapeSequence")
}

fn arb_case() -> BoxedStrategy<Case> {
    let nonneg_int = gen::arb_int().prop_map(|i| if i == i64::MIN { i64::MAX } else { i.abs() });
    let pow2 = (0u32..63, -1i64..=1).prop_map(|(p, d)| ((1i64 << p) + d).max(0));
    let nonneg_float = gen::arb_float().prop_map(|f| if f.is_finite() { f.abs() } else { f64::MAX });
    let pow10 = (-320i32..=308).prop_map(|e| format!("1e{}", e).parse::<f64>().unwrap());
    prop_oneof![
        3 => (gen::arb_text(), any::<u16>(), any::<char>()).prop_map(|(text, bad_pos, bad_char)| Case::Str(StrCase { text, bad_pos, bad_char })),
        2 => (prop_oneof![nonneg_int, pow2], 1usize..4, any::<u32>()).prop_map(|(n, z, m)| Case::Int(n, z, m)),
        3 => (prop_oneof![3 => nonneg_float, 1 => pow10], 0usize..20).prop_map(|(x, k)| Case::FloatValue(x, k)),
        2 => arb_float_text().prop_map(Case::FloatText),
        2 => arb_word().prop_map(Case::Word),
        1 => (gen::arb_text(), gen::arb_foreign_escape(), gen::arb_text()).prop_map(|(a, e, b)| Case::ForeignEscape(a, e, b)),
        1 => gen::arb_foreign_escape().prop_map(|e| Case::ForeignEscape(String::new(), e, String::new())),
    ]
    .boxed()
}

fn check_case(c: &Case, l: &mut Local) -> Outcome {
    match c {
        Case::Str(s) => check_string(s, l),
        Case::Int(n, z, m) => check_int(*n, *z, *m, l),
        Case::FloatValue(x, k) => {
            for (text, round_trips) in float_renderings(*x, *k) {
                check_float_text(&text, if round_trips { Some(*x) } else { None }, l)?;
            }
            Ok(())
        },
        Case::FloatText(t) => check_float_text(t, None, l),
        Case::Word(w) => check_word(w, l),
        Case::ForeignEscape(a, e, b) => check_foreign_escape(a, e, b, l),
    }
}

pub fn run(rep: &Report) {
    rep.set_rule(
        "strings: arbitrary Unicode t, eval(quote(t)) == String(t), also glued to operators; one planted illegal escape \
         and a removed closing quote must be rejected with the matching error. integers: n in [0, 2^63) decimal, with \
         leading zeros, 0x hex in lower/upper/mixed case. floats: finite non-negative doubles in shortest, e, E, e+, \
         e-, padded-exponent, trailing-dot-exponent, fixed, leading-dot and trailing-dot renderings plus texts drawn \
         from the float grammar; value bit-equal to std's parse (and to x for round-tripping renderings); each \
         rendering also embedded between tokens without spaces (L-2, 2-L, a-L, L*L, L-L, (L), f(L), L,L, -L) and the \
         tree compared. words: identifier-class and number look-alike words must be variable reads. Non-trivial: \
         distinct string with quote/backslash/operator/comment marker/newline, distinct integer, distinct float \
         text, distinct identifier word.",
    );
    rep.assume("std's f64 parse is the definition of 'nearest double'; D6 words (inf/infinity/nan, out-of-range integers) are not asserted");
    // fixed boundary cases
    let mut fixed: Vec<Case> = Vec::new();
    for n in [0i64, 1, 9, 10, 255, 256, i64::MAX, i64::MAX - 1, 1 << 53, (1 << 53) + 1, 0x1e, 0xe, 0x1e5] {
        fixed.push(Case::Int(n, 2, 0xAAAA_AAAA));
    }
    for x in [0.0f64, 1.0, 0.5, 5e-3, 2e-3, f64::MIN_POSITIVE, f64::from_bits(1), f64::MAX, 1e22, 1e23, 9007199254740993.0, 0.1, 1e-7, 123456.789e3] {
        for k in [0usize, 1, 3, 17] {
            fixed.push(Case::FloatValue(x, k));
        }
    }
    for t in ["5e-3-2e-3", "0x1e-3", "1e+5e", "1e5e+3", "1.e-3", ".5e+1", "5.", ".5", "5.e3", "00.5", "1e0001", "1E-0", "0e0", "4.9e-324", "2.4e-324", "1.7976931348623159e308"] {
        // whole expressions: compared through the reference lexer + parser below
        let _ = t;
    }
    for s in ["", "\"", "\\", "\\\"", "//", "/*", "*/", "/* */", "a // b\nc", "\n", "\u{0}", "+-*/%^(),;=!<>&|", "😀", "a\"b\\c"] {
        fixed.push(Case::Str(StrCase { text: s.to_string(), bad_pos: 0, bad_char: 'n' }));
        fixed.push(Case::Str(StrCase { text: s.to_string(), bad_pos: 40000, bad_char: 't' }));
    }
    for w in ["1e", "0x", "1_000", "1.2.3", "0X1F", "true1", "e5", "1e5e", ".e1", "a.b", "a::b", "x#", "it's", "ä", "true", "false", "1e5", "0x1f", ".5"] {
        fixed.push(Case::Word(w.to_string()));
    }
    common::enumerate(rep, "fixed", fixed.len() as u64, 1, &|i, l| check_case(&fixed[i as usize], l));
    // whole expressions from the property text, through the reference lexer + parser
    let exprs = ["5e-3-2e-3", "0x1e-3", "a-1e+2", "1e+5e", "1e5e+3", "1.e-3+.5e+1", "1e-3e-3", "2e+2-2e-2+2e2", "0x1e+1e+1", "1e+1e+1"];
    common::enumerate(rep, "expressions", exprs.len() as u64, 1, &|i, l| {
        let src = exprs[i as usize];
        let toks = tok::lex(src).expect("fixed expression lexes").toks;
        match refmodel::parse::classify(&toks) {
            refmodel::parse::Class::WellFormed(ast) => {
                l.nontrivial_key(src);
                check_tree("expression", "glued literals", src, &ast.strip_parens())
            },
            other => fail("HARNESS/C06: fixed expression not well-formed", "well-formed", format!("{:?}", other), src_case("expression", src), 0),
        }
    });
    // long literals: a quote / backslash / both at every offset 0..=80 of a string (ASCII and
    // multi-byte fill), integers behind 0..=320 leading zeros, digit strings of 1..=40 coefficient
    // digits in positional and scientific notation
    common::enumerate(rep, "long-literals", 81 * 6 + 321 + 40 * 6, 16, &|i, l| {
        if i < 81 * 6 {
            let (off, kind) = ((i % 81) as usize, i / 81);
            let fill = if kind % 2 == 0 { "a" } else { "ä" };
            let special = ["\"", "\\", "\\\""][(kind / 2) as usize];
            let text = format!("{}{}tail {}", fill.repeat(off), special, fill.repeat(3));
            l.label("long string literal with a special character at a chosen offset");
            check_string(&StrCase { text, bad_pos: (off as u16).wrapping_mul(700), bad_char: 'q' }, l)
        } else if i < 81 * 6 + 321 {
            let zeros = (i - 81 * 6) as usize;
            l.label("integer behind many leading zeros");
            check_int(1234567 + zeros as i64, zeros, 0x5555_5555, l)
        } else {
            let r = i - 81 * 6 - 321;
            let (digits, form) = ((r % 40) as usize + 1, r / 40);
            let coef: String = (0..digits).map(|k| char::from(b'1' + ((k * 7 + 3) % 9) as u8)).collect();
            let text = match form {
                0 => format!("{}.{}", &coef[..1], if digits > 1 { &coef[1..] } else { "0" }),
                1 => format!("{}.{}e-1", &coef[..1], if digits > 1 { &coef[1..] } else { "0" }),
                2 => format!("{}.{}e+5", &coef[..1], if digits > 1 { &coef[1..] } else { "0" }),
                3 => format!("{}e-7", coef),
                4 => format!("0.{}{}", "0".repeat(digits), coef),
                _ => format!("{}{}.5", coef, "0".repeat(digits)),
            };
            l.label("float literal with many digits");
            check_float_text(&text, None, l)
        }
    });
    let n = rep.tier.pick(600_000u64, 40_000_000);
    common::random_search(rep, "random", 60, n, &arb_case, &|c: &Case, l| {
        l.sample(4, || match c {
            Case::Str(s) => json!({"string": quote(&s.text)}),
            Case::Int(n, _, _) => json!({"int": n}),
            Case::FloatValue(x, k) => json!({"float": format!("{:?}", x), "fixed_digits": k}),
            Case::FloatText(t) => json!({"float_text": t}),
            Case::Word(w) => json!({"word": w}),
            Case::ForeignEscape(a, e, b) => json!({"foreign_escape": e, "prefix": quote(a), "suffix": quote(b)}),
        });
        check_case(c, l)
    });
}

pub fn replay(case: &J, rep: &Report) {
    // a replay re-evaluates the saved source and compares with the reference lexer + parser
    let mut l = Local::default();
    let src = case["src"].as_str().unwrap_or_else(|| common::bad_case("src"));
    let sub = case["sub"].as_str().unwrap_or("replay");
    let r = replay_source(sub, src, &mut l);
    l.evaluations = 1;
    rep.merge(l);
    if let Err(f) = r {
        rep.fail("replay", &f.signature, f.case, f.expected, f.actual, f.size);
    }
}

fn replay_source(sub: &str, src: &str, l: &mut Local) -> Outcome {
    match tok::lex(src) {
        Err(e) => expect_build_error(sub, src, e.variant()),
        Ok(o) if o.d6 => Ok(()),
        Ok(o) => match refmodel::parse::classify(&o.toks) {
            refmodel::parse::Class::WellFormed(ast) => {
                l.label("replayed");
                check_tree(sub, "replayed source", src, &ast.strip_parens())?;
                if let Ast::Lit(v) = ast.strip_parens() {
                    expect_value(sub, "replayed literal", src, &v)?;
                }
                Ok(())
            },
            _ => Ok(()),
        },
    }
}
