//! C11 — read-only evaluation equals mutable evaluation and never mutates.

use adapt::{build_hashmap, build_real, map_result, new_log, observe, state_diff, take_log, Observed, Tree};
use evalexpr::{DefaultNumericTypes, Operator};
use proptest::prelude::*;
use refmodel::gen::AstCfg;
use refmodel::interp::{run_full, Ctx, Kind};
use refmodel::tok;
use refmodel::value::{outcome_canon, outcome_matches, RE};
use vcore::serde_json::Value as J;
use vcore::{Local, Report};

use crate::c08;
use crate::common::{self, fail, Outcome};
use crate::entry::{ep_describe, ep_same};
use crate::matrix;
use crate::programs::{self, Program};

fn has_assignment_node(t: &Tree) -> bool {
    use Operator::*;
    matches!(
        t.operator(),
        Assign | AddAssign | SubAssign | MulAssign | DivAssign | ModAssign | ExpAssign | AndAssign | OrAssign
    ) || t.children().iter().any(has_assignment_node)
}

fn probes() -> (Vec<String>, Vec<String>) {
    (
        programs::VARS.iter().chain(["y", "z", "w"].iter()).map(|s| s.to_string()).collect(),
        programs::FUNCS.iter().map(|s| s.to_string()).collect(),
    )
}

fn observed_same(a: &Observed, b: &Observed) -> bool {
    a.disabled == b.disabled
        && a.names == b.names
        && a.listing.len() == b.listing.len()
        && a.listing.iter().zip(&b.listing).all(|(x, y)| x.0 == y.0 && x.1.same(&y.1))
        && a.functions == b.functions
}

pub fn check_program(p: &Program, l: &mut Local) -> Outcome {
    let case = p.case_json();
    let (vp, fp) = probes();
    let tree = match vcore::catch(|| evalexpr::build_operator_tree::<DefaultNumericTypes>(&p.src)) {
        Ok(Ok(t)) => t,
        Ok(Err(_)) => {
            l.label("does not build");
            return Ok(());
        },
        Err(_) => {
            l.label("panic handed to C01");
            return Ok(());
        },
    };
    let log = new_log();
    let real = build_hashmap(&p.ctx, &log);
    let before = observe(&real, &vp, &fp);
    take_log(&log);
    let r = vcore::catch(|| {
        let r_imm = tree.eval_with_context(&real);
        let log_imm = take_log(&log);
        let after_imm = observe(&real, &vp, &fp);
        take_log(&log);
        let mut clone = real.clone();
        let r_mut = tree.eval_with_context_mut(&mut clone);
        let log_mut = take_log(&log);
        let after_mut = observe(&clone, &vp, &fp);
        take_log(&log);
        // string-level pair
        let s_imm = evalexpr::eval_with_context(&p.src, &real);
        take_log(&log);
        let s_mut = evalexpr::eval_with_context_mut(&p.src, &mut real.clone());
        take_log(&log);
        (r_imm, log_imm, after_imm, r_mut, log_mut, after_mut, s_imm, s_mut)
    });
    let (r_imm, log_imm, after_imm, r_mut, log_mut, after_mut, s_imm, s_mut) = match r {
        Ok(t) => t,
        Err(_) => {
            l.label("panic handed to C01");
            return Ok(());
        },
    };
    let ops = adapt::tree_size(&tree);
    // the immutable evaluation never mutates
    if !observed_same(&before, &after_imm) {
        return fail(
            "C11/context changed by an immutable evaluation",
            format!("{:?}", before.listing.iter().map(|(k, v)| format!("{}={}", k, v.canon())).collect::<Vec<_>>()),
            format!("{:?}", after_imm.listing.iter().map(|(k, v)| format!("{}={}", k, v.canon())).collect::<Vec<_>>()),
            case,
            p.src.len(),
        );
    }
    // tree-level and string-level agree
    let e = |r: &evalexpr::EvalexprResult<adapt::Val>| r.clone().map(|v| adapt::to_rv(&v));
    if !ep_same(&e(&r_imm), &e(&s_imm)) || !ep_same(&e(&r_mut), &e(&s_mut)) {
        return fail(
            "C11/string-level and tree-level evaluation disagree",
            format!("{} / {}", ep_describe(&e(&r_imm)), ep_describe(&e(&r_mut))),
            format!("{} / {}", ep_describe(&e(&s_imm)), ep_describe(&e(&s_mut))),
            case,
            p.src.len(),
        );
    }
    if !has_assignment_node(&tree) {
        // pure differential: no reference needed
        l.label("no assignment operator: pure differential");
        if ops >= 4 {
            l.nontrivial_key(&format!("{}\u{1}{}", p.src, p.ctx.describe()));
        }
        if !ep_same(&e(&r_imm), &e(&r_mut)) {
            return fail(
                "C11/immutable and mutable evaluation disagree without any assignment",
                ep_describe(&e(&r_mut)),
                ep_describe(&e(&r_imm)),
                case,
                p.src.len(),
            );
        }
        if !refmodel::interp::log_same(&log_imm, &log_mut) {
            return fail(
                "C11/immutable and mutable evaluation call different user functions",
                refmodel::interp::log_describe(&log_mut),
                refmodel::interp::log_describe(&log_imm),
                case,
                p.src.len(),
            );
        }
        if !observed_same(&before, &after_mut) {
            return fail(
                "C11/context changed by an evaluation without assignment",
                "unchanged",
                format!("{:?}", after_mut.listing.iter().map(|(k, v)| format!("{}={}", k, v.canon())).collect::<Vec<_>>()),
                case,
                p.src.len(),
            );
        }
        return Ok(());
    }
    // with assignments: projection through the reference run
    let toks = match tok::lex(&p.src) {
        Ok(o) if !o.d6 => o.toks,
        _ => return Ok(()),
    };
    let ast = match refmodel::parse::classify(&toks) {
        refmodel::parse::Class::WellFormed(a) => a.strip_parens(),
        _ => {
            l.label("assignment outside the claimed domain");
            return Ok(());
        },
    };
    if !adapt::normalise(&tree).same(&ast) {
        l.label("tree differs from the reference parse (C02/C05)");
        return Ok(());
    }
    let mut m_imm = p.ctx.clone();
    let exp_imm = run_full(&ast, &mut m_imm, false, matrix::unit());
    let mut m_mut = p.ctx.clone();
    let exp_mut = run_full(&ast, &mut m_mut, true, matrix::unit());
    if exp_imm.result.as_ref().err().map_or(false, |e| e.is_unclaimed()) || exp_mut.result.as_ref().err().map_or(false, |e| e.is_unclaimed()) {
        l.label("unclaimed (D8 / D11) reached");
        return Ok(());
    }
    l.label("has an assignment: projection through the reference run");
    if exp_imm.assignments_reached > 0 {
        l.label("assignment reached");
        if !matches!(exp_imm.result, Err(RE::NotMutable)) {
            return fail("HARNESS/C11: reference reached an assignment without ContextNotMutable", "NotMutable", outcome_canon(&exp_imm.result), case, 0);
        }
    } else {
        l.label("an earlier error precedes every assignment");
    }
    l.nontrivial_key(&format!("{}\u{1}{}", p.src, p.ctx.describe()));
    let got_imm = map_result(&r_imm);
    let got_mut = map_result(&r_mut);
    if !outcome_matches(&exp_imm.result, &got_imm) {
        let what = if exp_imm.assignments_reached > 0 {
            "assignment reached but not ContextNotMutable"
        } else {
            "an earlier error must be reported before the assignment"
        };
        return fail(format!("C11/immutable result: {}", what), outcome_canon(&exp_imm.result), outcome_canon(&got_imm), case, p.src.len());
    }
    // What the *mutable* evaluation of a program with assignments returns and leaves behind is
    // C04's and C08's subject, not C11's: it is not compared with the reference here.
    let _ = (&got_mut, &after_mut, &m_mut, &exp_mut);
    Ok(())
}

/// Contexts without variable storage reject every assignment through the `_mut` entry points.
pub fn check_storageless(p: &Program, l: &mut Local) -> Outcome {
    let case = p.case_json();
    let mut ctx = p.ctx.clone();
    ctx.kind = Kind::StorageLess;
    let toks = match tok::lex(&p.src) {
        Ok(o) if !o.d6 => o.toks,
        _ => return Ok(()),
    };
    let ast = match refmodel::parse::classify(&toks) {
        refmodel::parse::Class::WellFormed(a) => a.strip_parens(),
        _ => return Ok(()),
    };
    let mut model = ctx.clone();
    let exp = run_full(&ast, &mut model, true, matrix::unit());
    if exp.result.as_ref().err().map_or(false, |e| e.is_unclaimed()) {
        return Ok(());
    }
    let log = new_log();
    let mut real = build_real(&ctx, &log);
    let got = match vcore::catch(|| real.eval_str_mut(&p.src)) {
        Ok(Some(g)) => map_result(&g),
        _ => return Ok(()),
    };
    if exp.assignments_reached > 0 {
        l.label("storage-less context: assignment reached");
        l.nontrivial_key(&format!("SL\u{1}{}\u{1}{}", p.src, p.ctx.describe()));
        if got.is_ok() {
            return fail("C11/storage-less context accepted an assignment", outcome_canon(&exp.result), outcome_canon(&got), case, p.src.len());
        }
    }
    if !outcome_matches(&exp.result, &got) {
        return fail("C11/storage-less context: result differs", outcome_canon(&exp.result), outcome_canon(&got), case, p.src.len());
    }
    let h = real.hashmap().unwrap();
    let (vp, fp) = probes();
    let obs = observe(h, &vp, &fp);
    if let Some(d) = state_diff(&obs, &ctx_as_hashmap(&ctx)) {
        return fail("C11/storage-less context changed", ctx.describe(), d, case, p.src.len());
    }
    Ok(())
}

fn ctx_as_hashmap(c: &Ctx) -> Ctx {
    let mut h = c.clone();
    h.kind = Kind::HashMap;
    h
}

fn arb_case(depth: u32) -> BoxedStrategy<Program> {
    let mut cfg = AstCfg::structural(depth);
    cfg.vars = programs::names(&programs::VARS);
    cfg.funcs = programs::names(&["f", "g", "h", "min", "str::from", "len", "typeof"]);
    cfg.rich_literals = false;
    let mut cfg_pure = cfg.clone();
    cfg_pure.assignments = false;
    let effectful = (c08_program(depth), programs::arb_ctx()).prop_map(|(src, ctx)| Program { family: "ast", src, ast: None, ctx });
    // a variable may be *named* like a literal (set through the API): the expression `42` still is
    // the number, in every evaluator
    let literal_named = (
        proptest::sample::select(vec!["42", "true", "false", "0x10", "1e3", "inf", "nan", ".5", "a", "007"]),
        proptest::collection::vec(proptest::sample::select(vec!["42", "true", "false", "0x10", "1e3", "inf", "nan", ".5", "a", "007"]), 0..4),
        proptest::sample::select(vec!["", " ", " + 1", " == a"]),
        programs::arb_ctx(),
    )
        .prop_map(|(word, bound, tail, mut ctx)| {
            for (i, n) in bound.iter().enumerate() {
                ctx.vars.insert(n.to_string(), refmodel::value::RV::Int(100 + i as i64));
            }
            Program { family: "literal-named", src: format!("{}{}", word, tail), ast: None, ctx }
        });
    prop_oneof![
        4 => programs::arb_ast_program(cfg),
        3 => programs::arb_ast_program(cfg_pure),
        3 => effectful,
        1 => programs::arb_soup_program(10),
        1 => literal_named,
    ]
    .boxed()
}

/// Integer-flavoured programs with assignments in operand positions (higher success rate).
fn c08_program(depth: u32) -> BoxedStrategy<String> {
    use refmodel::ast::{render_tokens, Ast, AssignOp, BinOp, Minimal};
    use refmodel::value::RV;
    let leaf = prop_oneof![
        (0i64..10).prop_map(|i| Ast::Lit(RV::Int(i))),
        proptest::sample::select(vec!["a", "b", "c", "x", "u"]).prop_map(|n| Ast::Var(n.to_string())),
    ];
    let e = leaf
        .prop_recursive(depth, 20, 3, |inner| {
            let e: BoxedStrategy<Ast> = inner.boxed();
            prop_oneof![
                5 => (proptest::sample::select(vec![BinOp::Add, BinOp::Sub, BinOp::Mul, BinOp::Lt]), e.clone(), e.clone())
                    .prop_map(|(o, a, b)| Ast::Bin(o, Box::new(a), Box::new(b))),
                2 => (proptest::sample::select(vec!["f", "g", "h"]), e.clone()).prop_map(|(f, a)| Ast::Call(f.to_string(), Box::new(a))),
                2 => (proptest::sample::select(vec!["a", "b", "x"]), proptest::sample::select(AssignOp::ALL.to_vec()), e.clone())
                    .prop_map(|(n, o, a)| Ast::Chain(vec![Ast::Assign(o, n.to_string(), Box::new(a)), Ast::Var(n.to_string())])),
            ]
        })
        .boxed();
    // `L && f(E)` / `L || f(E)`: the right operand is directly a call whose argument fails or assigns
    let bool_leaf = prop_oneof![
        any::<bool>().prop_map(|x| Ast::Lit(RV::Bool(x))),
        (e.clone(), e.clone()).prop_map(|(a, c)| Ast::Bin(BinOp::Lt, Box::new(a), Box::new(c))),
    ]
    .boxed();
    let failing = prop_oneof![
        Just(Ast::Bin(BinOp::Div, Box::new(Ast::Lit(RV::Int(1))), Box::new(Ast::Lit(RV::Int(0))))),
        Just(Ast::Var("missing".into())),
        e.clone(),
        e.clone().prop_map(|a| Ast::Chain(vec![Ast::Assign(AssignOp::Set, "x".into(), Box::new(a)), Ast::Lit(RV::Bool(true))])),
    ]
    .boxed();
    let logic = (any::<bool>(), bool_leaf.clone(), proptest::sample::select(vec!["f", "g", "typeof", "math::is_nan", "nofn"]), failing.clone()).prop_map(
        |(and, l, f, arg)| Ast::Bin(if and { BinOp::And } else { BinOp::Or }, Box::new(l), Box::new(Ast::Call(f.to_string(), Box::new(arg)))),
    );
    // the builtin `if` is eager: the branch that is not selected is evaluated too
    let eager_if = (bool_leaf.clone(), failing.clone(), failing.clone())
        .prop_map(|(c, x, y)| Ast::Call("if".into(), Box::new(Ast::Tuple(vec![c, x, y]))));
    let stmt = prop_oneof![
        3 => e.clone(),
        2 => logic,
        2 => eager_if,
        2 => (proptest::sample::select(vec!["a", "b", "x", "n"]), proptest::sample::select(AssignOp::ALL.to_vec()), e.clone())
            .prop_map(|(n, o, a)| Ast::Assign(o, n.to_string(), Box::new(a))),
    ];
    proptest::collection::vec(stmt, 1..4)
        .prop_map(|v| {
            let ast = if v.len() == 1 { v[0].clone() } else { Ast::Chain(v) };
            tok::render_spaced(&render_tokens(&ast, &mut Minimal))
        })
        .boxed()
}

pub fn run(rep: &Report) {
    rep.set_rule(
        "programs (general ASTs with and without assignments, integer-flavoured programs with assignments in operand \
         positions, token soups) x context recipes; for each: tree.eval_with_context(&c) and \
         tree.eval_with_context_mut(&mut c.clone()) plus the string-level pair. Without any assignment operator in the \
         tree the two results, call logs and contexts must be identical (pure differential). With assignments the \
         immutable result must be the reference projection (ContextNotMutable exactly if an assignment is reached, \
         else the earlier error), the mutable result and final context those of the reference interpreter; the \
         context is observably unchanged after every immutable evaluation. Storage-less contexts: every reached \
         assignment is rejected, never Ok, state unchanged. Non-trivial: distinct (program, context) with >= 4 tree \
         nodes and no assignment, or with an assignment in the claimed domain.",
    );
    rep.assume("D9: the immutable evaluator answers ContextNotMutable when an assignment node is reached");
    let _ = c08::case_json;
    let n = rep.tier.pick(300_000u64, 12_000_000);
    let depth = rep.tier.pick(4u32, 6);
    common::random_search(rep, "pairs", 110, n, &move || arb_case(depth), &|p: &Program, l| {
        l.sample(3, || vcore::serde_json::json!({"src": vcore::clip(&p.src, 120), "ctx": p.ctx.describe()}));
        check_program(p, l)?;
        check_storageless(p, l)
    });
}

pub fn replay(case: &J, rep: &Report) {
    let mut l = Local::default();
    let p = Program::from_json(case).unwrap_or_else(|| common::bad_case("program"));
    let r = check_program(&p, &mut l).and_then(|_| check_storageless(&p, &mut l));
    l.evaluations = 1;
    rep.merge(l);
    if let Err(f) = r {
        rep.fail("replay", &f.signature, f.case, f.expected, f.actual, f.size);
    }
}
