//! C01 — the library never panics, whatever the input.

use adapt::{build_hashmap, new_log, HCtx, StorageLess, Tree, Val};
use evalexpr::{DefaultNumericTypes, EmptyContext, EmptyContextWithBuiltinFunctions, Value};
use proptest::prelude::*;
use refmodel::builtins::BUILTINS;
use refmodel::interp::Ctx;
use refmodel::pools;
use refmodel::value::RV;
use std::convert::TryFrom;
use vcore::serde_json::{json, Value as J};
use vcore::{Local, Report};

use crate::c03;
use crate::common::{self, fail, Outcome};
use crate::entry::{self, Ep, Ty};
use crate::matrix;
use crate::programs::{self, Program};

fn sink(s: String) -> usize {
    std::hint::black_box(s.len())
}

fn fmt_value(v: &Val) {
    sink(format!("{}", v));
    sink(format!("{:?}", v));
    sink(v.str_from());
    let _ = v.clone() == *v;
    let _ = String::try_from(v.clone());
    let _ = bool::try_from(v.clone());
    let _ = <Vec<Val>>::try_from(v.clone());
    let _ = <()>::try_from(v.clone());
    let _ = (v.as_string(), v.as_int(), v.as_float(), v.as_number(), v.as_boolean(), v.as_tuple(), v.as_empty());
    let _ = (v.as_fixed_len_tuple(2), v.as_ranged_len_tuple(1..=3));
}

fn fmt_err(e: &adapt::Err) {
    sink(format!("{}", e));
    sink(format!("{:?}", e));
    let _ = e.clone() == *e;
}

fn fmt_ep(r: &Ep) {
    match r {
        Ok(v) => fmt_value(&adapt::from_rv(v)),
        Err(e) => fmt_err(e),
    }
}

fn exercise_tree(tree: &Tree) {
    sink(format!("{}", tree));
    sink(format!("{:?}", tree));
    if adapt::tree_depth(tree) <= 64 {
        sink(format!("{:#?}", tree));
    }
    let _ = tree.clone() == *tree;
    let n = tree.iter().count();
    std::hint::black_box(n);
    std::hint::black_box(tree.iter_identifiers().count());
    std::hint::black_box(tree.iter_variable_identifiers().count());
    std::hint::black_box(tree.iter_read_variable_identifiers().count());
    std::hint::black_box(tree.iter_write_variable_identifiers().count());
    std::hint::black_box(tree.iter_function_identifiers().count());
    let mut t = tree.clone();
    for id in t.iter_identifiers_mut() {
        id.push('_');
    }
    for id in t.iter_variable_identifiers_mut() {
        id.push('v');
    }
    for id in t.iter_read_variable_identifiers_mut() {
        id.push('r');
    }
    for id in t.iter_write_variable_identifiers_mut() {
        id.push('w');
    }
    for id in t.iter_function_identifiers_mut() {
        id.push('f');
    }
    std::hint::black_box(t.iter_operators_mut().count());
    sink(format!("{}", t));
    // trees changed through the public mutable accessors are still public-API objects: rename every
    // identifier to an odd name and evaluate / format the result
    for name in ["", "min", "\u{0}", "1", "a b", "if"] {
        let mut m = tree.clone();
        for id in m.iter_identifiers_mut() {
            *id = name.to_string();
        }
        sink(format!("{} {:?}", m, m));
        let h = adapt::HCtx::new();
        let emptyb = EmptyContextWithBuiltinFunctions::<DefaultNumericTypes>::default();
        let empty = EmptyContext::<DefaultNumericTypes>::default();
        for r in [m.eval_with_context(&h), m.eval_with_context_mut(&mut h.clone()), m.eval_with_context(&emptyb), m.eval_with_context(&empty), m.eval()] {
            match r {
                Ok(v) => fmt_value(&v),
                Err(e) => fmt_err(&e),
            }
        }
    }
}

/// Everything C01 quantifies over for one (source, context) pair. Returns how far the input got.
pub fn exercise(src: &str, c: &Ctx) -> (bool, bool) {
    let log = new_log();
    let built = evalexpr::build_operator_tree::<DefaultNumericTypes>(src);
    let mut evaluated = false;
    match &built {
        Ok(t) => exercise_tree(t),
        Err(e) => fmt_err(e),
    }
    let h: HCtx = build_hashmap(c, &log);
    let empty = EmptyContext::<DefaultNumericTypes>::default();
    let emptyb = EmptyContextWithBuiltinFunctions::<DefaultNumericTypes>::default();
    for ty in Ty::ALL {
        fmt_ep(&entry::str_plain(ty, src));
        let r = entry::str_imm(ty, src, &h);
        if ty == Ty::Untyped && r.is_ok() {
            evaluated = true;
        }
        fmt_ep(&r);
        fmt_ep(&entry::str_mut(ty, src, &mut h.clone()));
        fmt_ep(&entry::str_imm(ty, src, &empty));
        fmt_ep(&entry::str_imm(ty, src, &emptyb));
        fmt_ep(&entry::str_mut(ty, src, &mut StorageLess(h.clone())));
        if let Ok(t) = &built {
            fmt_ep(&entry::node_plain(ty, t));
            fmt_ep(&entry::node_imm(ty, t, &h));
            fmt_ep(&entry::node_mut(ty, t, &mut h.clone()));
            fmt_ep(&entry::node_imm(ty, t, &empty));
            fmt_ep(&entry::node_imm(ty, t, &emptyb));
        }
    }
    sink(format!("{:?}", h));
    (built.is_ok(), evaluated)
}

pub fn check_program(p: &Program, l: &mut Local) -> Outcome {
    // the property bounds inputs at 4096 characters
    if p.src.chars().count() > 4096 {
        l.label("skipped: longer than 4096 chars");
        return Ok(());
    }
    vcore::journal("C01", || p.case_json());
    match vcore::catch(|| exercise(&p.src, &p.ctx)) {
        Ok((built, evaluated)) => {
            l.label(match p.family {
                "ast" => "family: rendered AST",
                "soup" => "family: token soup",
                "raw" => "family: raw Unicode",
                "planted" => "family: planted defect",
                "deep" => "family: deep nesting",
                "typed" => "family: type-directed program",
                "fixed" => "family: fixed",
                "escape" => "family: string literal with another language's escape sequence",
                _ => "family: other",
            });
            if built {
                l.label("reaches the tree builder and builds");
                l.nontrivial_key(&p.src);
            }
            if evaluated {
                l.label("evaluates to a value in the HashMapContext");
            }
            Ok(())
        },
        Err(pi) => fail(
            format!("C01 {}", pi.signature()),
            "returns without unwinding",
            format!("panic: {} at {}", pi.message, pi.location),
            p.case_json(),
            p.src.len(),
        ),
    }
}

/// One builtin call through three routes, with formatting of the result.
fn check_builtin(name: &str, arg: &RV, tree: &Tree, l: &mut Local) -> Outcome {
    vcore::journal("C01", || json!({"kind": "builtin", "name": name, "arg": arg.canon()}));
    let r = vcore::catch(|| {
        let ctx = matrix::ctx_with_x(arg);
        let r = tree.eval_with_context(&ctx);
        match &r {
            Ok(v) => fmt_value(v),
            Err(e) => fmt_err(e),
        }
        let ok = r.is_ok();
        let mut h = ctx.clone();
        let _ = tree.eval_with_context_mut(&mut h);
        if let Some(lit) = pools::literal_text(arg) {
            let src = format!("{}({})", name, lit);
            let emptyb = EmptyContextWithBuiltinFunctions::<DefaultNumericTypes>::default();
            match evalexpr::eval_with_context(&src, &emptyb) {
                Ok(v) => fmt_value(&v),
                Err(e) => fmt_err(&e),
            }
            let src2 = format!("{} {}", name, lit);
            let _ = evalexpr::eval(&src2);
        }
        ok
    });
    match r {
        Ok(ok) => {
            if ok {
                l.label("builtin call returns a value");
                l.nontrivial_key(&format!("{}|{}", name, arg.canon()));
            } else {
                l.label("builtin call returns an error");
            }
            Ok(())
        },
        Err(pi) => fail(
            format!("C01 {} in {}", pi.signature(), name),
            "returns without unwinding",
            format!("panic: {} at {}", pi.message, pi.location),
            json!({"kind": "builtin", "name": name, "arg": arg.canon(), "readable": format!("{}(x) with x = {}", name, arg)}),
            arg.canon().len(),
        ),
    }
}

fn check_operator(op: usize, a: &RV, b: &RV, l: &mut Local) -> Outcome {
    // reuse C03's evaluation routes; only the absence of a panic is asserted here
    let mut scratch = Local::default();
    vcore::journal("C01", || json!({"kind": "op", "op": op, "a": a.canon(), "b": b.canon(), "readable": format!("{} {} {}", a, c03::op_symbol(op), b)}));
    match c03::check_op(op, a, b, None, true, &mut scratch) {
        Err(f) if f.signature.contains("panic") => fail(
            format!("C01 operator {}", f.signature),
            "returns without unwinding",
            f.actual,
            f.case,
            f.size,
        ),
        _ => {
            l.label("operator application");
            Ok(())
        },
    }
}

/// Deep-nesting family: `(`×n, `-`×n, `f `×n, `a=`×n, `1^`×n, `,`×n, … up to 4096 characters.
fn deep_sources(max: usize) -> Vec<String> {
    let mut v = Vec::new();
    let lens: Vec<usize> = [1usize, 2, 3, 7, 16, 100, 500, 1000, 2000, 4096].iter().copied().filter(|n| *n <= max).collect();
    for n in lens {
        let rep = |unit: &str, tail: &str, close: &str| -> String {
            let k = ((n.saturating_sub(tail.len())) / (unit.len() + close.len())).max(1);
            format!("{}{}{}", unit.repeat(k), tail, close.repeat(k))
        };
        v.push(rep("(", "1", ")"));
        v.push(rep("(", "", ""));
        v.push(rep(")", "", ""));
        v.push(rep("-", "1", ""));
        v.push(rep("!", "true", ""));
        v.push(rep("f ", "1", ""));
        v.push(rep("f(", "1", ")"));
        v.push(rep("a=", "1", ""));
        v.push(rep("a+=", "1", ""));
        v.push(rep("1^", "1", ""));
        v.push(rep("1+", "1", ""));
        v.push(rep("1-", "1", ""));
        v.push(rep("1*", "1", ""));
        v.push(rep(",", "", ""));
        v.push(rep(";", "", ""));
        v.push(rep("1,", "", ""));
        v.push(rep("1;", "", ""));
        v.push(rep(",;", "", ""));
        v.push(rep("(1,", "2", ")"));
        v.push(rep("(1;", "2", ")"));
        v.push(rep("\"", "", ""));
        v.push(rep("\\", "", ""));
        v.push(rep("/*", "", "*/"));
        v.push(rep("//", "", ""));
        v.push(rep("&", "", ""));
        v.push(rep("=", "", ""));
        v.push(rep("1e", "", ""));
        v.push(rep("9", "", ""));
        v.push(rep("0x", "", ""));
        v.push(rep("a b ", "", ""));
        v.push(rep("1 ", "", ""));
        v.push(rep("(a", "", ""));
        v.push(rep("1,(", "", ""));
        v.push(rep(";(,", "", ""));
    }
    v
}

pub fn run(rep: &Report) {
    rep.set_rule(
        "every case runs under catch_unwind with a recording panic hook on a 256 MiB stack: (a) complete builtin matrix \
         (49 names x argument shapes of arity 0..3 over the edge pool) through three call routes with Display/Debug of \
         every result; (b) complete operator matrix (16 operators x pool^2, variable and literal forms); (c) generated \
         programs (rendered ASTs, token soups, raw Unicode, planted defects, deep nesting up to 4096 chars) x context \
         recipes through tokenizer, precompilation, all 48 entry points on HashMapContext / EmptyContext / \
         EmptyContextWithBuiltinFunctions / a storage-less context, the ten identifier iterators, Clone, PartialEq, \
         Display and Debug of every tree, value and error. Non-trivial: the input reaches the tree builder and builds \
         (distinct sources), or the builtin call passes its arity/type gate (distinct name+argument).",
    );
    rep.assume("D12: stack exhaustion is not provoked (256 MiB stack, inputs <= 4096 chars); {:#?} only for trees of depth <= 64");
    rep.assume("user functions in generated contexts never panic");
    // (a) builtin matrix
    let args = matrix::builtin_args();
    let per = args.len() as u64;
    let trees: Vec<Tree> = BUILTINS.iter().map(|n| matrix::call_tree(n)).collect();
    common::enumerate(rep, "builtin-matrix", per * BUILTINS.len() as u64, 512, &|i, l| {
        let bi = (i / per) as usize;
        check_builtin(BUILTINS[bi], &args[(i % per) as usize], &trees[bi], l)
    });
    // (b) operator matrix
    let pool = pools::value_pool();
    let n = pool.len() as u64;
    common::enumerate(rep, "operator-matrix", 14 * n * n + 4 * n, 256, &|i, l| {
        if i < 14 * n * n {
            let r = i % (n * n);
            check_operator((i / (n * n)) as usize, &pool[(r / n) as usize], &pool[(r % n) as usize], l)
        } else {
            let r = i - 14 * n * n;
            check_operator(14 + (r / n) as usize, &pool[(r % n) as usize], &RV::Empty, l)
        }
    });
    rep.set_exhaustive(true);
    rep.add_extra("exhaustive_parts", json!("builtin matrix and operator matrix are complete; generated programs are sampled"));
    // (c) deep nesting
    let deep = deep_sources(4096);
    let ctx = {
        let mut c = programs::plain_ctx();
        c.vars.insert("a".into(), RV::Int(1));
        c.funcs.insert("f".into(), refmodel::interp::UF::Identity);
        c
    };
    common::enumerate(rep, "deep-nesting", deep.len() as u64, 1, &|i, l| {
        let p = Program { family: "deep", src: deep[i as usize].clone(), ast: None, ctx: ctx.clone() };
        if p.src.chars().count() >= 1000 && i % 7 == 0 {
            l.sample(1, || json!({"deep": vcore::clip(&p.src, 24), "chars": p.src.chars().count()}));
        }
        check_program(&p, l)
    });
    // (c) generated programs
    let n_prog = rep.tier.pick(150_000u64, 2_000_000);
    let depth = rep.tier.pick(5u32, 9);
    common::random_search(rep, "programs", 100, n_prog, &move || programs::arb_program(depth), &|p: &Program, l| {
        l.sample(3, || json!({"family": p.family, "src": vcore::clip(&p.src, 120), "ctx": p.ctx.describe()}));
        check_program(p, l)
    });
    // long programs close to the 4096-character bound
    let n_long = rep.tier.pick(1_000u64, 20_000);
    common::random_search(
        rep,
        "long-programs",
        101,
        n_long,
        &|| {
            prop_oneof![
                (proptest::collection::vec(refmodel::gen::arb_soup_token(), 200..900), programs::arb_ctx())
                    .prop_map(|(t, ctx)| Program { family: "soup", src: refmodel::tok::render_spaced(&t), ast: None, ctx }),
                (refmodel::gen::arb_raw(900), programs::arb_ctx())
                    .prop_map(|(src, ctx)| Program { family: "raw", src, ast: None, ctx }),
            ]
            .boxed()
        },
        &|p: &Program, l| check_program(p, l),
    );
    // string literals carrying escape sequences of other languages' syntax (\\n, \\x41, \\u{D800}, ...)
    // with edge payloads, alone and inside a small program
    let n_esc = rep.tier.pick(30_000u64, 1_000_000);
    common::random_search(
        rep,
        "foreign-escapes",
        102,
        n_esc,
        &|| {
            (refmodel::gen::arb_text(), refmodel::gen::arb_foreign_escape(), refmodel::gen::arb_text(), 0u8..4, programs::arb_ctx())
                .prop_map(|(a, e, b, shape, ctx)| {
                    let (pq, sq) = (refmodel::tok::quote(&a), refmodel::tok::quote(&b));
                    let lit = format!("{}{}{}", &pq[..pq.len() - 1], e, &sq[1..]);
                    let src = match shape {
                        0 => lit,
                        1 => format!("len({}) + 1", lit),
                        2 => format!("a = {}; a", lit),
                        _ => format!("\"{}{}\"", e, e),
                    };
                    Program { family: "escape", src, ast: None, ctx }
                })
                .boxed()
        },
        &|p: &Program, l| check_program(p, l),
    );
    let _ = Value::<DefaultNumericTypes>::Empty;
}

pub fn replay(case: &J, rep: &Report) {
    let mut l = Local::default();
    let r = match case["kind"].as_str() {
        Some("program") => {
            let p = Program::from_json(case).unwrap_or_else(|| common::bad_case("program"));
            check_program(&p, &mut l)
        },
        Some("builtin") => {
            let name = case["name"].as_str().unwrap_or_else(|| common::bad_case("name"));
            let arg = common::rv_from_json(&case["arg"]).unwrap_or_else(|| common::bad_case("arg"));
            check_builtin(name, &arg, &matrix::call_tree(name), &mut l)
        },
        Some("op") => {
            let op = case["op"].as_u64().unwrap_or_else(|| common::bad_case("op")) as usize;
            let a = common::rv_from_json(&case["a"]).unwrap_or_else(|| common::bad_case("a"));
            let b = common::rv_from_json(&case["b"]).unwrap_or_else(|| common::bad_case("b"));
            check_operator(op, &a, &b, &mut l)
        },
        _ => common::bad_case("kind"),
    };
    l.evaluations = 1;
    rep.merge(l);
    if let Err(f) = r {
        rep.fail("replay", &f.signature, f.case, f.expected, f.actual, f.size);
    }
}
