//! C03 — operators compute exact, correctly typed results or a typed error.

use std::collections::BTreeMap;

use adapt::{from_rv, map_result, HCtx, Tree};
use evalexpr::{ContextWithMutableVariables, DefaultNumericTypes};
use proptest::prelude::*;
use proptest::sample::select;
use refmodel::ast::BinOp;
use refmodel::gen;
use refmodel::ops;
use refmodel::pools;
use refmodel::value::{outcome_canon, outcome_matches, RR, RV};
use vcore::serde_json::{json, Value as J};
use vcore::{Local, Report};

use crate::common::{self, fail, Outcome};

/// 0..13 = binary operators, 14 = prefix `-`, 15 = prefix `!`, 16 = `- -`, 17 = `! !` (a doubled
/// prefix operator is two applications, not none).
pub const N_OPS: usize = 18;

pub fn op_symbol(op: usize) -> &'static str {
    if op < 14 {
        BinOp::ALL[op].sym()
    } else {
        ["neg", "not", "neg-neg", "not-not"][op - 14]
    }
}

fn var_source(op: usize) -> String {
    if op < 14 {
        format!("a {} b", BinOp::ALL[op].sym())
    } else {
        ["-a", "!a", "--a", "!!a"][op - 14].to_string()
    }
}

pub fn reference(op: usize, a: &RV, b: &RV) -> RR {
    match op {
        14 => ops::neg(a),
        15 => ops::not(a),
        16 => ops::neg(a).and_then(|v| ops::neg(&v)),
        17 => ops::not(a).and_then(|v| ops::not(&v)),
        _ => ops::binop(BinOp::ALL[op], a, b),
    }
}

/// Literal text for an operand (only non-negative numbers: a leading `-` would be the prefix
/// operator and bring precedence into play).
fn operand_literal(v: &RV) -> Option<String> {
    match v {
        RV::Int(i) if *i < 0 => None,
        RV::Float(f) if f.is_sign_negative() => None,
        other => pools::literal_text(other),
    }
}

fn literal_source(op: usize, a: &RV, b: &RV) -> Option<String> {
    if op < 14 {
        Some(format!("{} {} {}", operand_literal(a)?, BinOp::ALL[op].sym(), operand_literal(b)?))
    } else {
        Some(format!("{}{}", ["-", "!", "--", "!!"][op - 14], operand_literal(a)?))
    }
}

fn case_json(op: usize, a: &RV, b: &RV, form: &str) -> J {
    json!({"kind": "op", "op": op, "sym": op_symbol(op), "a": a.canon(), "b": b.canon(), "form": form,
           "readable": format!("{} {} {}", a, op_symbol(op), b)})
}

fn accepted(op: usize, a: &RV, b: &RV) -> bool {
    let num = |v: &RV| v.is_number();
    let nos = |v: &RV| matches!(v, RV::Int(_) | RV::Float(_) | RV::Str(_));
    match op {
        14 | 16 => num(a),
        15 | 17 => matches!(a, RV::Bool(_)),
        _ => match BinOp::ALL[op] {
            BinOp::Add => (num(a) && num(b)) || (matches!(a, RV::Str(_)) && matches!(b, RV::Str(_))),
            BinOp::Sub | BinOp::Mul | BinOp::Div | BinOp::Mod | BinOp::Exp => num(a) && num(b),
            BinOp::Lt | BinOp::Gt | BinOp::Leq | BinOp::Geq => {
                nos(a) && nos(b) && (matches!(a, RV::Str(_)) == matches!(b, RV::Str(_)))
            },
            BinOp::Eq | BinOp::Neq => true,
            BinOp::And | BinOp::Or => matches!(a, RV::Bool(_)) && matches!(b, RV::Bool(_)),
        },
    }
}

pub fn check_op(op: usize, a: &RV, b: &RV, tree: Option<&Tree>, with_literal: bool, l: &mut Local) -> Outcome {
    let expected = reference(op, a, b);
    let unary = op >= 14;
    let key_b = if unary { "-".to_string() } else { b.canon() };
    if accepted(op, a, b) {
        l.label("accepted operand types");
        l.nontrivial_key(&format!("{}|{}|{}", op, a.canon(), key_b));
    } else {
        l.label("rejected operand types");
        l.nontrivial_key(&format!("{}|T|{}|{}", op, a.tag().name(), if unary { "-" } else { b.tag().name() }));
    }
    // (i) operands bound as variables
    let owned;
    let tree = match tree {
        Some(t) => t,
        None => {
            owned = evalexpr::build_operator_tree::<DefaultNumericTypes>(&var_source(op)).expect("operator source builds");
            &owned
        },
    };
    let mut ctx = HCtx::new();
    ctx.set_value("a".into(), from_rv(a)).unwrap();
    if !unary {
        ctx.set_value("b".into(), from_rv(b)).unwrap();
    }
    let shape = format!("{} {}", a.tag().name(), if unary { "" } else { b.tag().name() });
    let got = vcore::catch(|| map_result(&tree.eval_with_context(&ctx)));
    let got = match got {
        Ok(g) => g,
        Err(p) => {
            return fail(
                format!("C03/{} {} panic {}", op_symbol(op), shape, p.signature()),
                outcome_canon(&expected),
                format!("panic: {} at {}", p.message, p.location),
                case_json(op, a, b, "variables"),
                a.canon().len() + b.canon().len(),
            )
        },
    };
    if !outcome_matches(&expected, &got) {
        return fail(
            format!("C03/{} {} variables: {}", op_symbol(op), shape, mismatch_kind(&expected, &got)),
            outcome_canon(&expected),
            outcome_canon(&got),
            case_json(op, a, b, "variables"),
            a.canon().len() + b.canon().len(),
        );
    }
    // (ii) operands as literals
    if with_literal {
        if let Some(src) = literal_source(op, a, b) {
            l.label("literal form");
            let got = vcore::catch(|| map_result(&evalexpr::eval(&src)));
            let got = match got {
                Ok(g) => g,
                Err(p) => {
                    return fail(
                        format!("C03/{} {} literal panic {}", op_symbol(op), shape, p.signature()),
                        outcome_canon(&expected),
                        format!("panic: {} at {}", p.message, p.location),
                        case_json(op, a, b, "literals"),
                        src.len(),
                    )
                },
            };
            if !outcome_matches(&expected, &got) {
                return fail(
                    format!("C03/{} {} literals: {}", op_symbol(op), shape, mismatch_kind(&expected, &got)),
                    outcome_canon(&expected),
                    format!("{} from `{}`", outcome_canon(&got), src),
                    case_json(op, a, b, "literals"),
                    src.len(),
                );
            }
        }
    }
    Ok(())
}

pub fn mismatch_kind(exp: &RR, got: &RR) -> &'static str {
    match (exp, got) {
        (Ok(_), Ok(_)) => "wrong value",
        (Ok(_), Err(_)) => "error where a value is expected",
        (Err(_), Ok(_)) => "value where an error is expected",
        (Err(_), Err(_)) => "wrong error class",
    }
}

/// Boundary-biased operand pairs.
fn arb_pair() -> BoxedStrategy<(usize, RV, RV)> {
    let ints = gen::arb_int();
    let near_sum = (gen::arb_int(), prop_oneof![Just(i64::MAX as i128), Just(i64::MIN as i128)], -3i128..=3).prop_map(|(a, lim, d)| {
        // b such that a + b is within 3 of the limit
        let b = (lim - a as i128 + d).clamp(i64::MIN as i128, i64::MAX as i128) as i64;
        (RV::Int(a), RV::Int(b))
    });
    let near_diff = (gen::arb_int(), prop_oneof![Just(i64::MAX as i128), Just(i64::MIN as i128)], -3i128..=3).prop_map(|(a, lim, d)| {
        let b = (a as i128 - lim + d).clamp(i64::MIN as i128, i64::MAX as i128) as i64;
        (RV::Int(a), RV::Int(b))
    });
    let near_prod = (gen::arb_int(), prop_oneof![Just(i64::MAX as i128), Just(i64::MIN as i128)], -3i128..=3).prop_map(|(a, lim, d)| {
        let b = if a == 0 { d } else { lim / a as i128 + d };
        (RV::Int(a), RV::Int(b.clamp(i64::MIN as i128, i64::MAX as i128) as i64))
    });
    let special = select(vec![
        (RV::Int(i64::MIN), RV::Int(-1)),
        (RV::Int(i64::MIN), RV::Int(1)),
        (RV::Int(0), RV::Int(i64::MIN)),
        (RV::Int(i64::MIN), RV::Int(0)),
        (RV::Int(-7), RV::Int(2)),
        (RV::Int(7), RV::Int(-2)),
        (RV::Int(-7), RV::Int(-2)),
        (RV::Int((1 << 53) + 1), RV::Float(9007199254740992.0)),
        (RV::Float(9007199254740992.0), RV::Int((1 << 53) + 1)),
        (RV::Int(i64::MAX), RV::Float(9223372036854775808.0)),
        (RV::Float(-0.0), RV::Float(0.0)),
        (RV::Float(f64::NAN), RV::Float(f64::NAN)),
    ]);
    let mixed53 = (-4i64..=4, -4i64..=4).prop_map(|(d, e)| {
        (RV::Int((1i64 << 53) + d), RV::Float(f64::from_bits((9007199254740992.0f64.to_bits() as i64 + e) as u64)))
    });
    let pair = prop_oneof![
        3 => near_sum,
        3 => near_diff,
        3 => near_prod,
        2 => special,
        2 => mixed53,
        2 => (ints.clone(), ints.clone()).prop_map(|(a, b)| (RV::Int(a), RV::Int(b))),
        2 => (gen::arb_float(), gen::arb_float()).prop_map(|(a, b)| (RV::Float(a), RV::Float(b))),
        2 => (gen::arb_int(), gen::arb_float()).prop_map(|(a, b)| (RV::Int(a), RV::Float(b))),
        2 => (gen::arb_float(), gen::arb_int()).prop_map(|(a, b)| (RV::Float(a), RV::Int(b))),
        2 => (gen::arb_text(), gen::arb_text()).prop_map(|(a, b)| (RV::Str(a), RV::Str(b))),
        3 => (gen::arb_value(), gen::arb_value()),
    ];
    (0usize..N_OPS, pair).prop_map(|(op, (a, b))| (op, a, b)).boxed()
}

pub fn run(rep: &Report) {
    rep.set_rule(
        "complete matrix: 14 binary + 2 prefix operators (+ the doubled prefix forms `--a`, `!!a`) x (pool x pool) operands of every type, each evaluated with \
         operands bound as variables and, where expressible, written as literals; reference = i128 / f64 table; value \
         bit-exact or error of the same class. Plus strings of every length 0..=70 (prefixes of one another / last character changed) under the ordering, equality and `+` operators, wide tuples (1..400 scalar or sub-tuple elements, equal or differing at one late position) under == and !=, and random operand pairs biased to overflow boundaries. Non-trivial: \
         both operands of a type the operator accepts (distinct by operator and operand values), or a (type, type) \
         pair not yet seen for that operator.",
    );
    rep.assume("D7: mixed int/float ordering compares after conversion to double; D8: MIN % -1 may be Int(0) or an arithmetic error");
    rep.assume("std f64 `+ - * / %` and powf are the IEEE-754 reference");
    let pool = pools::value_pool();
    let n = pool.len() as u64;
    let total = 14 * n * n + 4 * n;
    let trees: Vec<Tree> = (0..N_OPS)
        .map(|op| evalexpr::build_operator_tree::<DefaultNumericTypes>(&var_source(op)).expect("operator source builds"))
        .collect();
    let cover = std::sync::Mutex::new(BTreeMap::<String, u64>::new());
    common::enumerate(rep, "matrix", total, 256, &|i, l| {
        let (op, a, b) = if i < 14 * n * n {
            let op = (i / (n * n)) as usize;
            let r = i % (n * n);
            (op, &pool[(r / n) as usize], &pool[(r % n) as usize])
        } else {
            let r = i - 14 * n * n;
            (14 + (r / n) as usize, &pool[(r % n) as usize], &RV::Empty)
        };
        if i % 9973 == 0 {
            l.sample(3, || json!(format!("{} {} {}", a, op_symbol(op), b)));
            let mut g = cover.lock().unwrap();
            *g.entry(op_symbol(op).to_string()).or_insert(0) += 1;
        }
        check_op(op, a, b, Some(&trees[op]), true, l)
    });
    rep.set_exhaustive(true);
    rep.add_extra("matrix_pool_size", json!(n));
    rep.add_extra("matrix_cases", json!(total));
    // operator x type x type coverage matrix (complete by construction; counted here)
    let mut tt = BTreeMap::<String, u64>::new();
    for op in 0..N_OPS {
        for a in &pool {
            if op >= 14 {
                *tt.entry(format!("{} {}", op_symbol(op), a.tag().name())).or_insert(0) += 1;
            } else {
                for b in &pool {
                    *tt.entry(format!("{} {} {}", a.tag().name(), op_symbol(op), b.tag().name())).or_insert(0) += 1;
                }
            }
        }
    }
    rep.add_extra("operator_type_pairs_covered", json!(tt.len()));
    rep.add_extra("operator_type_pair_counts", json!(tt));
    // long operands: strings of every length 0..=70 that are prefixes of one another or differ in
    // their last character (block-wise comparison / concatenation fast paths), and wide tuples
    // (n elements, scalar or sub-tuple) that are equal or differ at one late position
    let base: Vec<char> = "abcdefghijklmnopqrstuvwxyzäöüß0123456789ABCDEFGHIJKLMNOPQRSTUVWXYZ€日本語-_.:,;#+*~".chars().collect();
    let str_of = |len: usize, variant: u64| -> RV {
        let mut v: Vec<char> = (0..len).map(|k| base[k % base.len()]).collect();
        if len > 0 {
            match variant {
                1 => *v.last_mut().unwrap() = '!',
                2 => *v.last_mut().unwrap() = '~',
                _ => {},
            }
        }
        RV::Str(v.into_iter().collect())
    };
    let string_ops: Vec<usize> = (0..14).filter(|op| matches!(BinOp::ALL[*op].sym(), "<" | "<=" | ">" | ">=" | "==" | "!=" | "+")).collect();
    let nl = 71u64;
    common::enumerate(rep, "long-strings", nl * nl * 3 * string_ops.len() as u64, 64, &|i, l| {
        let op = string_ops[(i % string_ops.len() as u64) as usize];
        let r = i / string_ops.len() as u64;
        let (la, lb, variant) = ((r % nl) as usize, ((r / nl) % nl) as usize, r / (nl * nl));
        let (a, b) = (str_of(la, 0), str_of(lb, variant));
        if la >= 16 || lb >= 16 {
            l.label("string operand of 16 or more characters");
        }
        check_op(op, &a, &b, None, la + lb < 60, l)
    });
    let eq_ops: Vec<usize> = (0..14).filter(|op| matches!(BinOp::ALL[*op].sym(), "==" | "!=")).collect();
    let sizes = refmodel::gen::SCALE_SIZES;
    common::enumerate(rep, "wide-tuples", sizes.len() as u64 * 2 * 7 * eq_ops.len() as u64, 16, &|i, l| {
        let op = eq_ops[(i % eq_ops.len() as u64) as usize];
        let r = i / eq_ops.len() as u64;
        let n = sizes[(r % sizes.len() as u64) as usize];
        let nested = (r / sizes.len() as u64) % 2 == 1;
        let which = r / (sizes.len() as u64 * 2);
        let elem = |k: usize, changed: bool| -> RV {
            let x = if changed { -1 } else { k as i64 };
            if nested { RV::Tuple(vec![RV::Int(k as i64), RV::Int(x)]) } else { RV::Int(x) }
        };
        // position of the one difference (none for which == 0)
        let diff: Option<usize> = match which {
            0 => None,
            1 => Some(0),
            2 => Some(n / 2),
            3 => Some(n - 1),
            4 => Some(15.min(n - 1)),
            5 => Some(16.min(n - 1)),
            _ => Some(17.min(n - 1)),
        };
        let a = RV::Tuple((0..n).map(|k| elem(k, false)).collect());
        let mut bv: Vec<RV> = (0..n).map(|k| elem(k, Some(k) == diff)).collect();
        if which == 6 && nested {
            // differ in the length of a sub-tuple instead
            if let Some(d) = diff {
                bv[d] = RV::Tuple(vec![RV::Int(d as i64)]);
            }
        }
        let b = RV::Tuple(bv);
        l.label("wide tuple operands");
        check_op(op, &a, &b, None, false, l)
    });
    let n_random = rep.tier.pick(2_000_000u64, 120_000_000);
    common::random_search(rep, "random", 30, n_random, &arb_pair, &|(op, a, b): &(usize, RV, RV), l| {
        l.sample(2, || json!(format!("{} {} {}", a, op_symbol(*op), b)));
        check_op(*op, a, b, None, true, l)
    });
}

pub fn replay(case: &J, rep: &Report) {
    let mut l = Local::default();
    let op = case["op"].as_u64().unwrap_or_else(|| common::bad_case("op")) as usize;
    let a = common::rv_from_json(&case["a"]).unwrap_or_else(|| common::bad_case("a"));
    let b = common::rv_from_json(&case["b"]).unwrap_or_else(|| common::bad_case("b"));
    let r = check_op(op, &a, &b, None, true, &mut l);
    l.evaluations = 1;
    rep.merge(l);
    if let Err(f) = r {
        rep.fail("replay", &f.signature, f.case, f.expected, f.actual, f.size);
    }
}
