//! Scale families: every (shape, size) of `refmodel::gen::all_scaled()` — wide tuples and chains,
//! sums over many variables, calls with many arguments, many distinct variables, long identifiers
//! and string literals, long nestings, a failure at position n — with sizes around the capacities
//! such code typically has (…, 15, 16, 17, …, 255, 256, 257, 300, 400), run through the per-case
//! check of the property. Small examples never reach a fixed-size buffer, a u8 counter, a block
//! boundary or an algorithm switch; these do.

use refmodel::ast::{render_tokens, Minimal};
use refmodel::gen::{all_scaled, Scaled};
use refmodel::tok::{self, Tok};
use vcore::serde_json::json;
use vcore::{Local, Report};

use crate::common::{self, Outcome};
use crate::programs::Program;

fn program(s: &Scaled) -> (Vec<Tok>, Program) {
    let toks = render_tokens(&s.ast, &mut Minimal);
    let src = tok::render_spaced(&toks);
    (toks, Program { family: "scaled", src, ast: Some(s.ast.clone()), ctx: s.ctx.clone() })
}

fn check_one(prop: &str, s: &Scaled, l: &mut Local) -> Outcome {
    let (toks, mut p) = program(s);
    // the generating AST without its explicit parenthesis nodes is what the reference parse gives
    let stripped = s.ast.strip_parens();
    p.ast = Some(stripped.clone());
    if p.src.chars().count() > 4096 {
        l.label("scaled: longer than 4096 characters, skipped");
        return Ok(());
    }
    l.label("scaled program");
    if s.n >= 16 {
        l.nontrivial_key(&format!("scaled|{}|{}", s.shape, s.n));
    }
    match prop {
        "C01" => crate::c01::check_program(&p, l),
        "C02" => crate::c02::check_tokens(&toks, "scaled", l),
        "C05" => crate::c05::check_tokens(&toks, l),
        "C07" => {
            // tight against fully commented
            let gaps = toks.len() + 1;
            let s1 = vec![Vec::new(); gaps];
            let s2 = (0..gaps).map(|i| vec![if i % 3 == 0 { crate::c07::Item::Block(" c ".into()) } else { crate::c07::Item::Ws(i) }]).collect();
            crate::c07::check_case(&crate::c07::SepCase { toks, s1, s2 }, l)
        },
        "C08" => crate::c08::check_source("C08", &p.src, &p.ctx, Some(&stripped), l),
        "C09" => crate::c08::check_source_with("C09", &p.src, &p.ctx, Some(&stripped), &["x", "v0", "v1", "v2", "v3", "v4", "v5", "v6"], false, l),
        "C11" => {
            crate::c11::check_program(&p, l)?;
            crate::c11::check_storageless(&p, l)
        },
        "C12" => {
            crate::c12::check_program(&p, l)?;
            // the same long program with a defect planted late: every entry point must report the
            // build error and leave the context alone, however long the well-formed part in front is
            for (k, pos) in [toks.len() * 2 / 3, toks.len().saturating_sub(1)].into_iter().enumerate() {
                let mut t = toks.clone();
                if t.len() < 3 {
                    continue;
                }
                if k == 0 {
                    t.insert(pos, Tok::Int(1));
                    t.insert(pos, Tok::Int(2));
                } else {
                    t.insert(pos, Tok::RParen);
                }
                let broken = Program { family: "scaled-planted", src: tok::render_spaced(&t), ast: None, ctx: p.ctx.clone() };
                crate::c12::check_program(&broken, l)?;
            }
            Ok(())
        },
        "C13" => {
            // planted defects at three positions of the long token sequence
            for (k, pos) in [toks.len() / 2, toks.len().saturating_sub(1), 0].into_iter().enumerate() {
                let mut t = toks.clone();
                if t.is_empty() {
                    continue;
                }
                match k {
                    0 => {
                        t.remove(pos.min(t.len() - 1));
                    },
                    1 => t.insert(pos, Tok::RParen),
                    _ => t.insert(t.len() / 3, Tok::LParen),
                }
                crate::c13::check_tokens_rendered(&t, Some(&p.ctx), k == 1, l)?;
            }
            crate::c13::check_tokens_rendered(&toks, Some(&p.ctx), false, l)
        },
        "C14" => crate::c14::check_source(&p.src, &p.ctx, (s.n % 4) as u8, Some(&stripped), l),
        _ => Ok(()),
    }
}

/// Run every scaled program through `prop`'s per-case check.
pub fn run_for(rep: &Report, prop: &'static str) {
    let all = all_scaled();
    common::enumerate(rep, "scaled", all.len() as u64, 4, &|i, l| {
        let s = &all[i as usize];
        if i % 37 == 5 {
            l.sample(2, || json!({"shape": s.shape, "n": s.n}));
        }
        check_one(prop, s, l)
    });
}
