//! C12 — all evaluation entry points are views of one evaluator.

use adapt::{build_hashmap, new_log, observe, take_log, Err as RealErr, HCtx, Observed};
use evalexpr::{DefaultNumericTypes, EvalexprError};
use refmodel::value::RV;
use vcore::serde_json::{json, Value as J};
use vcore::{Local, Report};

use crate::common::{self, fail, Outcome};
use crate::entry::{self, ep_describe, ep_same, Ep, Ty};
use crate::programs::{self, Program};

/// The projection of the untyped result `u` that entry points of type `ty` must return.
pub fn project(ty: Ty, u: &Ep) -> Ep {
    let v = match u {
        Err(e) => return Err(e.clone()),
        Ok(v) => v,
    };
    let real = adapt::from_rv(v);
    match (ty, v) {
        (Ty::Untyped, _) => Ok(v.clone()),
        (Ty::String, RV::Str(_)) | (Ty::Int, RV::Int(_)) | (Ty::Float, RV::Float(_)) | (Ty::Boolean, RV::Bool(_)) | (Ty::Tuple, RV::Tuple(_)) | (Ty::Empty, RV::Empty) => {
            Ok(v.clone())
        },
        (Ty::Number, RV::Float(_)) => Ok(v.clone()),
        (Ty::Number, RV::Int(i)) => Ok(RV::Float(*i as f64)),
        // the variants are written out: the library's own constructor functions are part of what is
        // being checked and must not build the expectation
        (Ty::String, _) => Err(EvalexprError::ExpectedString { actual: real }),
        (Ty::Int, _) => Err(EvalexprError::ExpectedInt { actual: real }),
        (Ty::Float, _) => Err(EvalexprError::ExpectedFloat { actual: real }),
        (Ty::Number, _) => Err(EvalexprError::ExpectedNumber { actual: real }),
        (Ty::Boolean, _) => Err(EvalexprError::ExpectedBoolean { actual: real }),
        (Ty::Tuple, _) => Err(EvalexprError::ExpectedTuple { actual: real }),
        (Ty::Empty, _) => Err(EvalexprError::ExpectedEmpty { actual: real }),
    }
}

fn probes() -> (Vec<String>, Vec<String>) {
    (
        programs::VARS.iter().chain(["y", "z", "w", "n"].iter()).map(|s| s.to_string()).collect(),
        programs::FUNCS.iter().map(|s| s.to_string()).collect(),
    )
}

fn observed_same(a: &Observed, b: &Observed) -> bool {
    a.disabled == b.disabled
        && a.names == b.names
        && a.listing.len() == b.listing.len()
        && a.listing.iter().zip(&b.listing).all(|(x, y)| x.0 == y.0 && x.1.same(&y.1))
        && a.functions == b.functions
}

fn obs(h: &HCtx, log: &adapt::Log) -> Observed {
    let (vp, fp) = probes();
    let o = observe(h, &vp, &fp);
    take_log(log);
    o
}

pub fn check_program(p: &Program, l: &mut Local) -> Outcome {
    let case = p.case_json();
    let src = p.src.as_str();
    let r = vcore::catch(|| -> Result<(bool, bool), (String, String, String)> {
        let log = new_log();
        let base: HCtx = build_hashmap(&p.ctx, &log);
        let base_obs = obs(&base, &log);
        let built = evalexpr::build_operator_tree::<DefaultNumericTypes>(src);
        // reference points: the untyped string-level results
        let mut c_mut = base.clone();
        let u_mut: Ep = entry::str_mut(Ty::Untyped, src, &mut c_mut);
        let after_mut = obs(&c_mut, &log);
        let u_imm: Ep = entry::str_imm(Ty::Untyped, src, &base);
        take_log(&log);
        let mut fresh = HCtx::new();
        let u_plain: Ep = entry::str_mut(Ty::Untyped, src, &mut fresh);
        // build error <=> every entry point returns exactly that error
        if let Err(be) = &built {
            for (name, u) in [("eval_with_context_mut", &u_mut), ("eval_with_context", &u_imm), ("eval (fresh context)", &u_plain)] {
                if !matches!(u, Err(e) if e == be || format!("{:?}", e) == format!("{:?}", be)) {
                    return Err((format!("build_operator_tree fails but {} does not return that error", name), format!("Err({:?})", be), ep_describe(u)));
                }
            }
        } else {
            for (name, u) in [("eval_with_context_mut", &u_mut), ("eval_with_context", &u_imm)] {
                if let Err(e) = u {
                    if is_build_error(e) {
                        return Err((format!("build_operator_tree succeeds but {} returns a build error", name), "no build error".into(), ep_describe(u)));
                    }
                }
            }
        }
        // repeating from an equal context state gives an equal result
        let again = entry::str_mut(Ty::Untyped, src, &mut base.clone());
        take_log(&log);
        if !ep_same(&again, &u_mut) {
            return Err(("repeating an evaluation from an equal context gives a different result".into(), ep_describe(&u_mut), ep_describe(&again)));
        }
        for ty in Ty::ALL {
            let tyname = ty.name();
            // string level
            let got = entry::str_plain(ty, src);
            let want = project(ty, &u_plain);
            if !ep_same(&got, &want) {
                return Err((format!("eval{}(s) is not the projection of evaluation in a fresh HashMapContext", tyname), ep_describe(&want), ep_describe(&got)));
            }
            let got = entry::str_imm(ty, src, &base);
            take_log(&log);
            let want = project(ty, &u_imm);
            if !ep_same(&got, &want) {
                return Err((format!("eval{}_with_context(s, c) is not the projection of eval_with_context", tyname), ep_describe(&want), ep_describe(&got)));
            }
            if !observed_same(&obs(&base, &log), &base_obs) {
                return Err((format!("eval{}_with_context changed the context", tyname), "unchanged".into(), "changed".into()));
            }
            let mut c = base.clone();
            let got = entry::str_mut(ty, src, &mut c);
            let want = project(ty, &u_mut);
            if !ep_same(&got, &want) {
                return Err((format!("eval{}_with_context_mut(s, c) is not the projection of eval_with_context_mut", tyname), ep_describe(&want), ep_describe(&got)));
            }
            if !observed_same(&obs(&c, &log), &after_mut) {
                return Err((format!("context after eval{}_with_context_mut differs from the one after eval_with_context_mut", tyname), "same final context".into(), "different".into()));
            }
            // tree level
            if let Ok(tree) = &built {
                let got = entry::node_plain(ty, tree);
                let want = project(ty, &u_plain);
                if !ep_same(&got, &want) {
                    return Err((format!("Node::eval{}() differs from the string-level result", tyname), ep_describe(&want), ep_describe(&got)));
                }
                let got = entry::node_imm(ty, tree, &base);
                take_log(&log);
                let want = project(ty, &u_imm);
                if !ep_same(&got, &want) {
                    return Err((format!("Node::eval{}_with_context differs from the string-level result", tyname), ep_describe(&want), ep_describe(&got)));
                }
                if !observed_same(&obs(&base, &log), &base_obs) {
                    return Err((format!("Node::eval{}_with_context changed the context", tyname), "unchanged".into(), "changed".into()));
                }
                let mut c = base.clone();
                let got = entry::node_mut(ty, tree, &mut c);
                let want = project(ty, &u_mut);
                if !ep_same(&got, &want) {
                    return Err((format!("Node::eval{}_with_context_mut differs from the string-level result", tyname), ep_describe(&want), ep_describe(&got)));
                }
                if !observed_same(&obs(&c, &log), &after_mut) {
                    return Err((format!("context after Node::eval{}_with_context_mut differs", tyname), "same final context".into(), "different".into()));
                }
            }
        }
        let differs = !ep_same(&u_mut, &u_imm);
        Ok((u_mut.is_ok(), differs))
    });
    match r {
        Err(_) => {
            l.label("panic handed to C01");
            Ok(())
        },
        Ok(Ok((value, differs))) => {
            if value {
                l.label("evaluates to a value");
                l.nontrivial_key(&format!("{}\u{1}{}", p.src, p.ctx.describe()));
            }
            if differs {
                l.label("mutable and immutable results differ (assignment)");
                l.nontrivial_key(&format!("{}\u{1}{}", p.src, p.ctx.describe()));
            }
            Ok(())
        },
        Ok(Err((what, exp, act))) => fail(format!("C12/{}", what), exp, act, case, p.src.len()),
    }
}

fn is_build_error(e: &RealErr) -> bool {
    matches!(adapt::map_err(e), refmodel::value::RE::Build(_)) || matches!(e, EvalexprError::CustomMessage(m) if m == "unmatched inline comment")
}

/// Programs whose results cover all six value types, so that every typed entry point sees both
/// its own type and the five others.
fn typed_sources() -> Vec<&'static str> {
    vec![
        "1", "1.5", "\"s\"", "true", "(1, 2)", "()", "", "a", "a = 1", "a = 1; a", "a += 1; a", "x = 2.5; x", "1 +", "(", "\"", "1 2",
        "f(1)", "min(1, 2)", "str::from(1)", "1 / 0", "a; b", "1,", ";", "9223372036854775807 + 1", "1 == 1.0", "2 ^ 2", "typeof(())",
        "len(\"abc\")", "n = 1; n", "x = (1, 2); x", "b = true; b &&= false; b", "/* c */ 1", "1 // c", "&", "a b c", "nope()", "1 = 2",
        // boundary literals, alone (a shortcut for plain literals must agree with the tokenizer)
        "42", "0x10", "9223372036854775807", "-9223372036854775807", "9223372036854775808", "-9223372036854775808", " -9223372036854775808 ",
        "0x7fffffffffffffff", "0x8000000000000000", "-0", "007", "+7", "0x1F", "1e3", "-1e3", ".5", "5.", "inf", "-inf", "nan", "true", " true ",
        "1_000", "١٢٣", "0b1",
        // assignment targets that are not bare identifiers (unclaimed for the tree shape, but all
        // entry points must still agree with each other)
        "\"a\" = 3; a", "(\"a\") = 3", "\"a\" + \"b\" = 3", "\"z\" += 1", "(a) = 1", "f(1) = 2", "1 + a = 3", "a = b += 1",
        // context-free calls after a failed assigning call must start from a fresh context
        "q = 5; q / 0", "q", "q = 2.5; q * 2.0",
    ]
}

pub fn run(rep: &Report) {
    rep.set_rule(
        "strings (rendered ASTs covering all six result types, token soups, raw Unicode, planted defects, lexical \
         errors) x context recipes (variables, user functions, builtin switch); for each of the 8 result types x \
         {plain, with_context, with_context_mut} x {string level, tree level} = 48 entry points: result == projection \
         of the untyped result (payload, or the matching expected-type error carrying the value, errors unchanged, \
         number converting ints); context-free forms == evaluation in a fresh HashMapContext; after each _mut variant \
         the context equals the one after eval_with_context_mut, after each immutable variant it is unchanged; \
         build_operator_tree fails iff every entry point returns exactly that error; repetition from an equal state \
         is equal. Non-trivial: distinct (string, context) that evaluates to a value, or whose mutable and immutable \
         results differ.",
    );
    rep.assume("the untyped string-level entry points are the reference points; the relation between them and the reference interpreter is C08/C11");
    let fixed = typed_sources();
    let mut ctx = refmodel::interp::Ctx::new(refmodel::interp::Kind::HashMap);
    ctx.vars.insert("a".into(), RV::Int(4));
    ctx.vars.insert("b".into(), RV::Bool(true));
    ctx.funcs.insert("f".into(), refmodel::interp::UF::Tag(1));
    // variables *named* like literals (possible through the API) must not capture the literals
    for (i, n) in ["42", "true", "inf", "0x10", "1e3", "-0", "007", ".5"].iter().enumerate() {
        ctx.vars.insert(n.to_string(), RV::Int(900 + i as i64));
    }
    common::enumerate(rep, "fixed", fixed.len() as u64, 1, &|i, l| {
        let p = Program { family: "fixed", src: fixed[i as usize].to_string(), ast: None, ctx: ctx.clone() };
        l.sample(6, || json!(p.src.clone()));
        check_program(&p, l)
    });
    let n = rep.tier.pick(150_000u64, 2_000_000);
    let depth = rep.tier.pick(4u32, 7);
    common::random_search(rep, "programs", 120, n, &move || programs::arb_program(depth), &|p: &Program, l| {
        l.sample(3, || json!({"src": vcore::clip(&p.src, 120), "ctx": p.ctx.describe()}));
        check_program(p, l)?;
        // the same program with its first assignment target written as a string literal
        // (`"a" = ...`): outside the claimed tree shapes, inside C12's quantifier (all strings)
        if let Some(pos) = p.src.find(" = ") {
            let head = &p.src[..pos];
            if let Some(start) = head.rfind(|c: char| !(c.is_alphanumeric() || c == '_')).map(|i| i + 1).or(Some(0)) {
                let name = &head[start..];
                if !name.is_empty() && name.chars().all(|c| c.is_ascii_alphabetic()) {
                    let src = format!("{}\"{}\"{}", &p.src[..start], name, &p.src[pos..]);
                    l.label("variant: string literal as assignment target");
                    return check_program(&Program { family: "string-target", src, ast: None, ctx: p.ctx.clone() }, l);
                }
            }
        }
        Ok(())
    });
}

pub fn replay(case: &J, rep: &Report) {
    let mut l = Local::default();
    let p = Program::from_json(case).unwrap_or_else(|| common::bad_case("program"));
    let r = check_program(&p, &mut l);
    l.evaluations = 1;
    rep.merge(l);
    if let Err(f) = r {
        rep.fail("replay", &f.signature, f.case, f.expected, f.actual, f.size);
    }
}
