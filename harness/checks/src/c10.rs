//! C10 — builtin functions compute what the documentation says.

use proptest::prelude::*;
use proptest::sample::select;
use refmodel::builtins::{builtin, BOut, Unit, BUILTINS};
use refmodel::gen;
use refmodel::value::{outcome_canon, RV};
use vcore::serde_json::{json, Value as J};
use vcore::{Local, Report, Tier};

use crate::common::{self, fail, Outcome};
use crate::matrix;

pub fn case_json(name: &str, arg: &RV) -> J {
    json!({"kind": "builtin", "name": name, "arg": arg.canon(), "source": format!("{}(x) with x = {}", name, arg)})
}

fn label_of(name: &str) -> &'static str {
    BUILTINS.iter().find(|b| **b == name).copied().unwrap_or("?")
}

/// One builtin call against the reference.
pub fn check_call(name: &str, arg: &RV, unit: Unit, tree: Option<&adapt::Tree>, l: &mut Local) -> Outcome {
    let expected = builtin(name, arg, unit).expect("name is a builtin");
    let owned;
    let tree = match tree {
        Some(t) => t,
        None => {
            owned = matrix::call_tree(name);
            &owned
        },
    };
    let ctx = matrix::ctx_with_x(arg);
    let got = vcore::catch(|| adapt::map_result(&tree.eval_with_context(&ctx)));
    let sh = matrix::shape(arg);
    match (&expected, &got) {
        (BOut::Unclaimed(_), _) => {
            l.label("unclaimed (D11)");
            return Ok(());
        },
        (_, Err(p)) => {
            return fail(
                format!("C10/{} {} panic {}", name, sh, p.signature()),
                expected.describe(),
                format!("panic: {} at {}", p.message, p.location),
                case_json(name, arg),
                arg.canon().len(),
            );
        },
        _ => {},
    }
    let got = got.unwrap();
    match &expected {
        BOut::Val(_) | BOut::OneOf(_) => {
            l.label("reference: value");
            l.nontrivial_key(&format!("{}|{}", name, arg.canon()));
        },
        BOut::Err => {
            l.label("reference: error");
            // first error case of its (builtin, shape-signature) is non-trivial
            l.nontrivial_key(&format!("{}|err|{}", name, sh));
        },
        BOut::Unclaimed(_) => {},
    }
    if expected.accepts(&got) {
        return Ok(());
    }
    let kind = match (&expected, &got) {
        (BOut::Err, Ok(_)) => "value-where-error-expected",
        (_, Err(_)) => "error-where-value-expected",
        _ => "wrong-value",
    };
    fail(
        format!("C10/{} {} {}", name, sh, kind),
        expected.describe(),
        outcome_canon(&got),
        case_json(name, arg),
        arg.canon().len(),
    )
}

/// Consistency of `len` and `str::substring` in the observed unit, over arbitrary strings:
/// substring(s, 0, len(s)) == s and len(substring(s, a, b)) == b - a whenever substring succeeds.
fn check_len_substring(s: &str, a: i64, b: i64, l: &mut Local) -> Outcome {
    use evalexpr::{ContextWithMutableVariables, Value};
    let case = json!({"kind": "lensub", "s": s, "a": a, "b": b});
    let mut ctx = adapt::HCtx::new();
    ctx.set_value("s".into(), Value::String(s.to_string())).unwrap();
    ctx.set_value("a".into(), Value::Int(a)).unwrap();
    ctx.set_value("b".into(), Value::Int(b)).unwrap();
    let r = vcore::catch(|| {
        let len = evalexpr::eval_with_context("len(s)", &ctx);
        let whole = evalexpr::eval_with_context("str::substring(s, 0, len(s))", &ctx);
        let sub = evalexpr::eval_with_context("str::substring(s, a, b)", &ctx);
        let sub_len = evalexpr::eval_with_context("len(str::substring(s, a, b))", &ctx);
        let open = evalexpr::eval_with_context("str::substring(s, a)", &ctx);
        let open2 = evalexpr::eval_with_context("str::substring(s, a, len(s))", &ctx);
        (len, whole, sub, sub_len, open, open2)
    });
    let (len, whole, sub, sub_len, open, open2) = match r {
        Ok(t) => t,
        Err(p) => {
            return fail(
                format!("C10/len-substring panic {}", p.signature()),
                "no panic",
                format!("panic: {} at {}", p.message, p.location),
                case,
                s.len(),
            )
        },
    };
    let n = match len {
        Ok(Value::Int(n)) => n,
        other => {
            return fail("C10/len of a string is not an int", "Ok(Int)", format!("{:?}", other), case, s.len());
        },
    };
    if n != s.len() as i64 && n != s.chars().count() as i64 {
        return fail(
            "C10/len counts neither bytes nor characters",
            format!("{} or {}", s.len(), s.chars().count()),
            n.to_string(),
            case,
            s.len(),
        );
    }
    if whole != Ok(Value::String(s.to_string())) {
        return fail("C10/substring(s,0,len(s)) != s", format!("{:?}", s), format!("{:?}", whole), case, s.len());
    }
    if open != open2 {
        return fail(
            "C10/substring(s,a) != substring(s,a,len(s))",
            format!("{:?}", open2),
            format!("{:?}", open),
            case,
            s.len(),
        );
    }
    match (&sub, &sub_len) {
        (Ok(Value::String(t)), Ok(Value::Int(k))) => {
            l.label("len/substring: in-range slice");
            l.nontrivial_key(&format!("lensub|{}|{}|{}", s, a, b));
            if *k != b - a {
                return fail(
                    "C10/len(substring(s,a,b)) != b-a",
                    (b - a).to_string(),
                    k.to_string(),
                    case,
                    s.len(),
                );
            }
            if !s.contains(t.as_str()) {
                return fail("C10/substring is not a substring", "a slice of s", format!("{:?}", t), case, s.len());
            }
            Ok(())
        },
        (Err(_), Err(_)) => {
            l.label("len/substring: rejected indices");
            if 0 <= a && a <= b && b <= n {
                // in range in the observed unit: may only fail for a byte index inside a character
                let on_boundary = n != s.len() as i64 || (s.is_char_boundary(a as usize) && s.is_char_boundary(b as usize));
                if on_boundary {
                    return fail(
                        "C10/substring rejects in-range indices",
                        "Ok(slice)",
                        format!("{:?}", sub),
                        case,
                        s.len(),
                    );
                }
            }
            Ok(())
        },
        other => fail("C10/substring and len(substring) disagree", "both Ok or both Err", format!("{:?}", other), case, s.len()),
    }
}

/// Random arguments per family, near function-specific boundaries.
fn arb_family_case() -> BoxedStrategy<(String, RV)> {
    let names: Vec<String> = BUILTINS.iter().map(|s| s.to_string()).collect();
    let num = || prop_oneof![gen::arb_int().prop_map(RV::Int), gen::arb_float().prop_map(RV::Float)];
    let near = |c: f64| (Just(c), -4i64..=4).prop_map(|(c, d)| RV::Float(f64::from_bits((c.to_bits() as i64 + d) as u64)));
    let math_arg = prop_oneof![
        4 => num(),
        1 => near(1.0),
        1 => near(-1.0),
        1 => near(709.78),
        1 => near(-745.13),
        1 => near(0.5),
        1 => (-3i64..=3).prop_map(|d| RV::Float(d as f64 + 0.5)),
        1 => gen::arb_value(),
    ];
    let shift = (gen::arb_int(), prop_oneof![4 => 0i64..=63, 1 => -2i64..=66]).prop_map(|(a, n)| RV::Tuple(vec![RV::Int(a), RV::Int(n)]));
    let substr = (gen::arb_text(), -1i64..=12, proptest::option::weighted(0.7, -1i64..=12)).prop_map(|(s, a, b)| {
        let mut v = vec![RV::Str(s), RV::Int(a)];
        if let Some(b) = b {
            v.push(RV::Int(b));
        }
        RV::Tuple(v)
    });
    let nums = proptest::collection::vec(num(), 1..5).prop_map(RV::Tuple);
    // contains / contains_any: needles drawn from the haystack, from other scalars, and from the
    // forbidden shapes (nested tuple, empty value) in every position
    let hay_elem = || prop_oneof![
        3 => (0i64..4).prop_map(RV::Int),
        1 => select(vec![RV::Float(1.0), RV::Float(f64::NAN), RV::Str("a".into()), RV::Bool(true), RV::Float(-0.0)]),
    ];
    let needle = prop_oneof![
        5 => (0i64..5).prop_map(RV::Int),
        2 => select(vec![RV::Float(1.0), RV::Float(f64::NAN), RV::Str("a".into()), RV::Str("b".into()), RV::Bool(true), RV::Float(0.0)]),
        2 => Just(RV::Tuple(vec![RV::Int(1), RV::Int(2)])),
        1 => Just(RV::Tuple(vec![])),
        1 => Just(RV::Empty),
    ];
    let contains_any = (proptest::collection::vec(hay_elem(), 0..5), proptest::collection::vec(needle.clone(), 0..5))
        .prop_map(|(h, n)| RV::Tuple(vec![RV::Tuple(h), RV::Tuple(n)]));
    let contains = (proptest::collection::vec(hay_elem(), 0..5), needle).prop_map(|(h, n)| RV::Tuple(vec![RV::Tuple(h), n]));
    let arg = prop_oneof![
        2 => contains_any,
        1 => contains,
        4 => math_arg,
        3 => (num(), num()).prop_map(|(a, b)| RV::Tuple(vec![a, b])),
        2 => shift,
        2 => substr,
        3 => nums,
        2 => gen::arb_text().prop_map(RV::Str),
        3 => gen::arb_value(),
        1 => (any::<bool>(), gen::arb_value(), gen::arb_value()).prop_map(|(b, x, y)| RV::Tuple(vec![RV::Bool(b), x, y])),
        1 => (gen::arb_value(), gen::arb_scalar()).prop_map(|(t, n)| RV::Tuple(vec![t, n])),
    ];
    let any_name = (select(names), arg.clone());
    // the same arguments, aimed at the builtins they were built for
    let aimed = (
        select(vec![
            "contains", "contains_any", "min", "max", "str::substring", "shl", "shr", "math::log", "math::pow", "math::atan2",
            "math::hypot", "if", "len", "str::from", "math::abs", "bitand", "bitor", "bitxor", "round", "floor", "ceil",
        ])
        .prop_map(|s| s.to_string()),
        arg,
    );
    prop_oneof![1 => any_name, 1 => aimed].boxed()
}

pub fn run(rep: &Report) {
    rep.set_rule(
        "complete matrix: 49 builtins x {Empty, every pool value, every ordered pair of pool values as 2-tuple, every \
         ordered triple over the small pool as 3-tuple}, each called as f(x) with x bound, compared with an independent \
         reference (bit-exact value / error / validity predicate for min,max); plus random per-family arguments near \
         function-specific boundaries and random (string, a, b) triples for the len/substring consistency laws. \
         Non-trivial: the call passes the arity/type gate of its builtin (reference returns a value), or is the first \
         error case of its (builtin, argument type shape).",
    );
    rep.assume("std f64 functions are the specification of the math builtins (the property names the double-precision library function)");
    rep.assume("D11: shifts outside 0..63, min/max with NaN, Empty needle in contains*, and the len unit (bytes vs chars) are not asserted");
    let unit = match matrix::observe_unit() {
        Ok(u) => u,
        Err(why) => {
            rep.fail("unit", "C10/len counts neither bytes nor characters", json!({"kind":"unit"}), "1 or 2".into(), why, 0);
            Unit::Bytes
        },
    };
    rep.add_extra("len_unit_observed", json!(format!("{:?}", unit)));
    let args = matrix::builtin_args();
    let per = args.len() as u64;
    let total = per * BUILTINS.len() as u64;
    let trees: Vec<adapt::Tree> = BUILTINS.iter().map(|n| matrix::call_tree(n)).collect();
    common::enumerate(rep, "matrix", total, 512, &|i, l| {
        let bi = (i / per) as usize;
        let ai = (i % per) as usize;
        let name = BUILTINS[bi];
        l.label_n(label_of(name), 0);
        if i % 20011 == 0 {
            let arg = &args[ai];
            l.sample(3, || json!({"call": format!("{}(x)", name), "x": arg.to_string()}));
        }
        check_call(name, &args[ai], unit, Some(&trees[bi]), l)
    });
    rep.set_exhaustive(true);
    rep.add_extra("matrix_argument_shapes", json!(per));
    rep.add_extra("matrix_bound", json!("arity 0..2 over the full pool, arity 3 over the 24-value small pool"));
    // long arguments: every string length 0..=80 (mixed-case ASCII, multi-byte) through every string
    // builtin, and tuples of 1..400 elements through min / max / contains / contains_any / len /
    // str::from / typeof (look-alike values Int 1 / Float 1.0 / 0.0 / -0.0 among the needles)
    let str_fns = ["len", "str::to_lowercase", "str::to_uppercase", "str::trim", "str::from", "typeof", "str::substring"];
    common::enumerate(rep, "long-strings", 81 * 3 * str_fns.len() as u64, 32, &|i, l| {
        let name = str_fns[(i % str_fns.len() as u64) as usize];
        let r = i / str_fns.len() as u64;
        let (len, kind) = ((r % 81) as usize, r / 81);
        let text: String = (0..len)
            .map(|k| match kind {
                0 => ['a', 'B', 'c', 'D', ' ', 'x', 'Y', 'z'][(k * 5 + 3) % 8],
                1 => ['ä', 'Ö', 'ß', 'a', 'Σ', 'ς', ' ', 'İ'][(k * 3 + 1) % 8],
                _ => [' ', 'A', '\t', 'b'][(k / 7) % 4],
            })
            .collect();
        let arg = if name == "str::substring" {
            RV::Tuple(vec![RV::Str(text.clone()), RV::Int((len / 3) as i64), RV::Int(text.len().min(len / 3 + 20) as i64)])
        } else {
            RV::Str(text)
        };
        l.label("long string argument");
        check_call(name, &arg, unit, None, l)
    });
    let sizes = refmodel::gen::SCALE_SIZES;
    let tup_fns = ["min", "max", "contains", "contains_any", "len", "str::from", "typeof"];
    common::enumerate(rep, "wide-tuples", sizes.len() as u64 * 4 * tup_fns.len() as u64, 8, &|i, l| {
        let name = tup_fns[(i % tup_fns.len() as u64) as usize];
        let r = i / tup_fns.len() as u64;
        let n = sizes[(r % sizes.len() as u64) as usize];
        let variant = r / sizes.len() as u64;
        let elem = |k: usize| -> RV {
            match variant {
                0 => RV::Int((k as i64 * 37) % 101 - 50),
                1 => if k % 3 == 0 { RV::Float(k as f64 * 0.5 - 7.25) } else { RV::Int(k as i64 - 9) },
                2 => RV::Int(k as i64 + 1),
                _ => if k % 2 == 0 { RV::Int(k as i64 + 1) } else { RV::Str(format!("s{}", k)) },
            }
        };
        let tuple = RV::Tuple((0..n).map(elem).collect());
        let arg = match name {
            "contains" => RV::Tuple(vec![tuple, [RV::Float(1.0), RV::Int(n as i64), RV::Int(-999), RV::Float(-0.0)][variant as usize % 4].clone()]),
            "contains_any" => RV::Tuple(vec![tuple, RV::Tuple(vec![RV::Float(1.0), RV::Float(2.5), RV::Float(3.5), RV::Float(-0.0), RV::Int(-999), RV::Str("zz".into())])]),
            _ => tuple,
        };
        l.label("wide tuple argument");
        check_call(name, &arg, unit, None, l)
    });
    let n_random = rep.tier.pick(1_000_000u64, 60_000_000);
    common::random_search(rep, "random", 10, n_random, &arb_family_case, &|(name, arg): &(String, RV), l| {
        l.sample(2, || json!({"call": format!("{}(x)", name), "x": arg.to_string()}));
        check_call(name, arg, unit, None, l)
    });
    let n_ls = rep.tier.pick(300_000u64, 12_000_000);
    common::random_search(
        rep,
        "len-substring",
        11,
        n_ls,
        &|| (gen::arb_text(), -1i64..=14, -1i64..=14).boxed(),
        &|(s, a, b): &(String, i64, i64), l| check_len_substring(s, *a, *b, l),
    );
    let _ = Tier::Quick;
}

pub fn replay(case: &J, rep: &Report) {
    let mut l = Local::default();
    let r = match case["kind"].as_str() {
        Some("builtin") => {
            let name = case["name"].as_str().unwrap_or_else(|| common::bad_case("name"));
            let arg = common::rv_from_json(&case["arg"]).unwrap_or_else(|| common::bad_case("arg"));
            check_call(name, &arg, matrix::unit(), None, &mut l)
        },
        Some("lensub") => check_len_substring(
            case["s"].as_str().unwrap_or_else(|| common::bad_case("s")),
            case["a"].as_i64().unwrap_or(0),
            case["b"].as_i64().unwrap_or(0),
            &mut l,
        ),
        _ => common::bad_case("kind"),
    };
    l.evaluations = 1;
    rep.merge(l);
    if let Err(f) = r {
        rep.fail("replay", &f.signature, f.case, f.expected, f.actual, f.size);
    }
}
