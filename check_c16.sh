#!/bin/bash
# C16: evalexpr built with feature `serde` in its own workspace.
#   check_c16.sh build | quick | thorough | replay <file>
set -u
ROOT="$(cd "$(dirname "${BASH_SOURCE[0]}")" && pwd)"
cd "$ROOT" || exit 2
export CARGO_NET_OFFLINE=true
export VERIF_ROOT="$ROOT"
export RUST_BACKTRACE=0
mkdir -p out evidence
MODE="${1:-quick}"
LOG=out/build_c16.log

write_compile_evidence() {   # $1 = violations, $2 = explanation
    cat > evidence/C16.json <<JSON
{
 "property_id": "C16",
 "tier": "${TIER:-quick}",
 "seed": ${VERIF_SEED:-0},
 "level": "exploration",
 "coverage": {
  "evaluations": 1,
  "distinct_nontrivial": 2,
  "rule": "the check's own code serialises and deserialises HashMapContext<DefaultNumericTypes>; it did not type-check (two obligations: Serialize and Deserialize)",
  "samples": ["$2"],
  "exhaustive": false
 },
 "assumptions": [],
 "wall_s": 0.0,
 "violations": $1
}
JSON
}

( cd harness_serde && cargo build --profile checked ) >"$LOG" 2>&1
BUILD=$?
if [ "$MODE" = build ]; then
    [ $BUILD -eq 0 ] || tail -20 "$LOG"
    exit $BUILD
fi
if [ $BUILD -ne 0 ]; then
    # The check type-checks only if the serde impls the property names exist for the default
    # numeric types. A missing Serialize / Deserialize impl for Node / Value / HashMapContext is
    # the property's violation; any other build failure is inconclusive.
    if grep -E "E0277" "$LOG" >/dev/null && grep -E "(Serialize|Deserialize<'[a-z_]+>|Default)\` is not (satisfied|implemented)" "$LOG" >/dev/null \
       && grep -E "HashMapContext|evalexpr::Value|evalexpr::Node|DefaultNumericTypes" "$LOG" >/dev/null; then
        mkdir -p out/violations
        REPLAY="$ROOT/out/violations/C16_compile.json"
        python3 - "$LOG" "$REPLAY" <<'PY'
import json,sys
log=open(sys.argv[1]).read()
json.dump({"property":"C16","subcheck":"type-check","signature":"C16/serde impls missing for the default numeric types (does not type-check)","case":{"kind":"compile"},"compiler_output":log[-6000:]},open(sys.argv[2],"w"),indent=1)
PY
        TIER="$MODE" write_compile_evidence 1 "see out/build_c16.log"
        grep -E "^error" -A 6 "$LOG" | head -30
        echo "VIOLATION property=C16 replay=$REPLAY"
        exit 1
    fi
    tail -30 "$LOG"
    echo "INCONCLUSIVE: the C16 harness does not build against /repo"
    exit 2
fi

BIN=harness_serde/target/checked/c16
LIMIT="${VERIF_WATCHDOG_S:-7000}"
if [ "$MODE" = replay ]; then
    FILE="${2:-}"
    if grep -q '"kind": *"compile"' "$FILE" 2>/dev/null; then
        echo "compile-time finding: the harness builds now, so the finding does not reproduce"
        exit 0
    fi
    timeout --signal=KILL "$LIMIT" "$BIN" replay "$FILE"
    rc=$?
else
    timeout --signal=KILL "$LIMIT" "$BIN" "$MODE"
    rc=$?
fi
if [ $rc -ne 0 ] && [ $rc -ne 1 ] && [ $rc -ne 2 ]; then
    echo "INCONCLUSIVE: c16 terminated abnormally (exit $rc)"
    exit 2
fi
exit $rc
