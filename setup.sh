#!/bin/bash
# Build the verification harness offline from files on disk (both profiles), against /repo.
set -u
ROOT="$(cd "$(dirname "${BASH_SOURCE[0]}")" && pwd)"
cd "$ROOT" || exit 2
export CARGO_NET_OFFLINE=true
mkdir -p out evidence
( cd harness && cargo build --profile checked -p checks && cargo build --release -p checks ) 2>&1 | tail -5
[ -x harness/target/checked/vcheck ] && [ -x harness/target/release/vcheck ] || { echo "setup: harness build failed"; exit 1; }
for extra in check_c15.sh check_c16.sh; do
    [ -x "./$extra" ] && ./"$extra" build
done
echo "setup ok"
