#!/usr/bin/env python3
"""Regenerates MANIFEST.json (kept as a script so the 16 entries stay consistent)."""
import json
P = {
 "C01": ("4 C01", "generated-input search (complete builtin/operator matrices + proptest programs + libFuzzer) under catch_unwind; oracle: returns without unwinding",
         "Every case runs under catch_unwind with a recording hook in two build profiles (overflow checks on / off). The builtin x argument-shape matrix (arity 0..3 over the edge pool) and the operator x pool^2 matrix are complete; programs (rendered ASTs, token soups, raw Unicode, planted defects, deep nesting to 4096 chars) are sampled through all 48 entry points, four context kinds, iterators and formatters; the thorough tier adds coverage-guided libFuzzer campaigns. Exploration: absence of panics is shown only for what was generated. Scale families (DESIGN §10.16): the same per-case check on programs, operands, literals, separators, histories and contexts of sizes 1..400 clustered around typical capacities (8, 16, 32, 64, 128, 256).",
         "256 MiB worker stacks (stack exhaustion is outside the property, D12); user functions of generated contexts never panic; {:#?} only for trees of depth <= 64."),
 "C02": ("4 C02", "exhaustive small-scope enumeration + proptest round trip; libFuzzer in thorough; oracle: independent precedence-climbing reference parser (AST -> render -> build -> normalise = AST)",
         "Complete operator matrix (17^3 operator triples x 3^4 prefix choices, pairs x 8^3 operand forms, 9 assignment operators x 14^2), every token sequence up to length 7 (quick) / 8 (thorough) over a representative alphabet, random ASTs rendered with minimal and redundant parentheses and without spaces (D6 words as opaque operands), and long spines up to 60 operators; the built tree must equal the reference tree. Complete within the stated bounds, sampled beyond. Scale families (DESIGN §10.16): the same per-case check on programs, operands, literals, separators, histories and contexts of sizes 1..400 clustered around typical capacities (8, 16, 32, 64, 128, 256).",
         "The reference grammar is the documented precedence table; D1-D4 regions (assignment to non-identifiers, adjacent assignment operators, x ^ -y ^ z, ! after an operand) are counted but not asserted."),
 "C03": ("4 C03", "complete operator x operand-pool^2 matrix + boundary-biased proptest pairs; oracle: independent i128 / f64 reference table",
         "All 14 binary and 2 prefix operators over every ordered pair of the 89-value edge pool (all six types), operands bound as variables and written as literals, in both build profiles; plus random pairs biased to overflow boundaries. Value bit-exact or error of the same class. Scale families (DESIGN §10.16): the same per-case check on programs, operands, literals, separators, histories and contexts of sizes 1..400 clustered around typical capacities (8, 16, 32, 64, 128, 256).",
         "std f64 arithmetic and powf are the IEEE reference; D7 (mixed comparisons after conversion to double), D8 (MIN % -1 may be 0 or an arithmetic error)."),
 "C04": ("4 C04", "exhaustive stateful enumeration (all abstract states x all operations) + proptest random histories; oracle: map model compared after every step",
         "All 784 abstract states of a finite value/name domain (13 values incl. both zeros and tuples of different element types), each reached by a clean and a dirty (other types, clone, clear) history, x every operation (set_value, 9 assignment operators with literal and variable right-hand sides, reads, clears, set_function, toggle, clone-and-continue); return values and complete observable state equal the model after every step. Random histories up to 60 steps over a larger domain. Scale families (DESIGN §10.16): the same per-case check on programs, operands, literals, separators, histories and contexts of sizes 1..400 clustered around typical capacities (8, 16, 32, 64, 128, 256).",
         "Model = BTreeMap with type tags; exact ExpectedT{actual} on type clashes."),
 "C05": ("4 C05", "exhaustive token-sequence enumeration + proptest nested sequences; libFuzzer in thorough; oracle: reference chain-of-tuples parser and reference interpreter (value + effects)",
         "Every sequence up to length 7 (quick) / 9 (thorough) over `1 x = , ; ( )` and up to 5 / 6 over the 16-symbol base alphabet; well-formed ones must build into the reference tree and evaluate to the reference value and final variables (tree level, and through the string-level mutable and read-only entry points); random nested sequences with empty elements. Scale families (DESIGN §10.16): the same per-case check on programs, operands, literals, separators, histories and contexts of sizes 1..400 clustered around typical capacities (8, 16, 32, 64, 128, 256).",
         "An absent element is the empty value; D1-D4 unclaimed."),
 "C06": ("4 C06", "proptest round trips (eval(quote(t)) = t, decimal/hex = n, renderings of x = x) + differential against std parse and the reference tokenizer",
         "Arbitrary Unicode strings with planted illegal escapes and removed quotes, integers in 7 renderings, floats in up to 11 renderings each embedded 10 ways between tokens without spaces, float texts from the grammar, identifier and number look-alike words. Scale families (DESIGN §10.16): the same per-case check on programs, operands, literals, separators, histories and contexts of sizes 1..400 clustered around typical capacities (8, 16, 32, 64, 128, 256).",
         "std's f64 parse defines 'nearest double'; D6 words (inf/nan, out-of-range integers) not asserted."),
 "C07": ("4 C07", "metamorphic proptest (two independent separator assignments + canonical rendering) with a complete token-class-pair x separator table; libFuzzer in thorough",
         "Token sequences with two random separator assignments per gap (25 whitespace chars, block and line comments with arbitrary text) must build equal trees or fail alike; complete table of class-representative pairs x 30 separators x 2 contexts; all sequences up to length 4 tight vs commented; unterminated block comments rejected. Admissibility asserted with the reference tokenizer. Scale families (DESIGN §10.16): the same per-case check on programs, operands, literals, separators, histories and contexts of sizes 1..400 clustered around typical capacities (8, 16, 32, 64, 128, 256).",
         "D10: lone & and | are not tokens."),
 "C08": ("4 C08", "proptest programs with recording / failing user functions; libFuzzer in thorough; oracle: reference interpreter triple (result, final context, ordered call log)",
         "Random effectful programs (assignments in operand positions, recording and failing functions, unknown names, k/0 with distinct k, eager if, no short-circuit) over varied contexts; result (exact names, messages and failing operands), final variables and call log with arguments must equal the reference, also through one typed string-level and one typed tree-level _mut entry point per program (exactly once through every entry point). Scale families (DESIGN §10.16): the same per-case check on programs, operands, literals, separators, histories and contexts of sizes 1..400 clustered around typical capacities (8, 16, 32, 64, 128, 256).",
         "User functions deterministic; their only effect is the harness-owned log."),
 "C09": ("4 C09", "complete configuration matrix enumeration + proptest over random programs whose names live in both namespaces; oracle: reference resolution rule / reference interpreter with recording functions",
         "65 names (49 builtins, 5 non-builtin names, 11 identifiers of 31..300 bytes) x 130 context configurations (switch, user function recording or itself failing with FunctionIdentifierNotFound, variable, clone / clone_from / clear_functions / clear / toggled twice / clearing while another copy is alive, both empty contexts) x 56 call and variable forms, all enumerated (counts in the evidence file); a many-functions family (1..129 context functions at once, some named like builtins; as built / clone / clear_functions / clear); callee, argument shape and error must match. Then random programs (nested and juxtaposed calls, assignments to variables named like functions, tuples, chains) over 10 shared names in random HashMapContexts (300 k quick / 6 M thorough), compared on result, call log and final variables. Scale families (DESIGN §10.16): the same per-case check on programs, operands, literals, separators, histories and contexts of sizes 1..400 clustered around typical capacities (8, 16, 32, 64, 128, 256).",
         "Builtin results are those of the C10 reference."),
 "C10": ("4 C10", "complete builtin x argument-shape matrix + per-family proptest; oracle: per-builtin reference functions (bit-exact / error / validity predicate for min,max) and len/substring laws",
         "49 builtins x 23,500 argument shapes (arity 0..3) in both build profiles, random arguments near function-specific boundaries, and (string, a, b) triples for the len/substring consistency laws. Scale families (DESIGN §10.16): the same per-case check on programs, operands, literals, separators, histories and contexts of sizes 1..400 clustered around typical capacities (8, 16, 32, 64, 128, 256).",
         "std f64 functions are the specification of the math builtins; D11 regions not asserted."),
 "C11": ("4 C11", "differential proptest (immutable vs mutable evaluation on clones) + reference projection for programs with assignments; libFuzzer in thorough",
         "Programs with and without assignments x context recipes: without assignment operators the two evaluators must agree exactly (results, calls, contexts); with assignments the immutable result is the reference projection; contexts unchanged after immutable evaluation; storage-less contexts reject every assignment. Scale families (DESIGN §10.16): the same per-case check on programs, operands, literals, separators, histories and contexts of sizes 1..400 clustered around typical capacities (8, 16, 32, 64, 128, 256).",
         "D9: ContextNotMutable when an assignment node is reached."),
 "C12": ("4 C12", "differential proptest over all 48 entry points against the projection of the untyped result; libFuzzer in thorough",
         "Strings of every family x context recipes: each typed / precompiled / context-free entry point equals the projection of the untyped string-level result, contexts after _mut variants agree, immutable variants do not mutate, build errors are returned by every entry point. Scale families (DESIGN §10.16): the same per-case check on programs, operands, literals, separators, histories and contexts of sizes 1..400 clustered around typical capacities (8, 16, 32, 64, 128, 256).",
         "The untyped string-level entry points are the reference points (their relation to the reference interpreter is C08/C11)."),
 "C13": ("4 C13", "exhaustive token-sequence enumeration + planted-defect proptest; libFuzzer in thorough; oracle: independent local recogniser of ill-formedness (no tree built)",
         "All 25.6 M sequences up to length 6 (quick) / 7 (thorough) over the base alphabet plus `true`, and planted defects in rendered and type-directed programs: unbalanced -> build error; balanced -> never an unmatched-brace error; missing operand / juxtaposition -> build error or wrong-arity node and never Ok in a generous context. Scale families (DESIGN §10.16): the same per-case check on programs, operands, literals, separators, histories and contexts of sizes 1..400 clustered around typical capacities (8, 16, 32, 64, 128, 256).",
         "D4 unclaimed."),
 "C14": ("4 C14", "proptest over well-formed ASTs; libFuzzer over token soups in thorough; oracle: occurrence list of the generating AST / reference parse, rename/eval commutation",
         "The ten iterators against the occurrence list, overwrite-through-mutable-iterator exactness, unknown-identifier errors listed, injective renaming commutes with evaluation (result, calls, final context); every program rendered spaced, without spaces and with non-ASCII comments between the tokens. Scale families (DESIGN §10.16): the same per-case check on programs, operands, literals, separators, histories and contexts of sizes 1..400 clustered around typical capacities (8, 16, 32, 64, 128, 256).",
         "The occurrence list is that of the reference parse of the source; a tree whose shape differs from it (C02/C05's business) is still held to the source's identifiers."),
 "C15": ("4 C15", "generated read-only programs evaluated concurrently (2..16 free-running threads; 16 / 48 / 64 threads held inside one user-function call by a harness-owned rendezvous; contexts built on different threads) vs sequential oracle; Send + Sync decided by the check's own need to type-check",
         "Sampled schedules only: the harness does not own the scheduler. The compile-time half (eight assert_send_sync lines plus code that really shares and moves the types) is decisive; the dynamic half samples staggered concurrent evaluation (incl. a contention batch: every builtin with 12 different arguments from staggered threads) of shared trees and contexts.",
         "No interleaving enumeration; loom/shuttle not applicable (no primitives to instrument)."),
 "C16": ("4 C16", "proptest round trips through serde's &str / borrowed-str deserializers, an exact in-memory serde data-model format, RON (vendored ron 0.8.1, the format of evalexpr's own serde tests) and serde_json (string and reader)",
         "Node deserialisation equals build_operator_tree (tree or message) for generated strings; generated contexts round-trip with identical variables (bit-exact, NaN<->NaN), switch, and no functions. Scale families (DESIGN §10.16): the same per-case check on programs, operands, literals, separators, histories and contexts of sizes 1..400 clustered around typical capacities (8, 16, 32, 64, 128, 256).",
         "ron 0.8.1 and base64 0.21.7 are vendored under harness_serde/vendor (this toolchain's registry cache has neither); RON and JSON used only for finite floats."),
}
checks=[]
for pid,(ref,tech,text,note) in P.items():
    checks.append({
        "property_id": pid,
        "quick_cmd": f"./check.sh {pid} quick",
        "thorough_cmd": f"./check.sh {pid} thorough",
        "evidence_file": f"/verif/evidence/{pid}.json",
        "replay_cmd_template": "./check.sh replay {path}",
        "engine": "vcheck",
        "level_claimed": {"category": "exploration", "text": text, "design_ref": "DESIGN.md §"+ref},
        "level_note": note,
        "technique": tech,
    })
m={
 "version": 1,
 "setup_cmd": "./setup.sh",
 "hooks": {
   "guard": "evalexpr_verif",
   "enable": "no hooks are needed: every property is observed through the public API (RUSTFLAGS=\"--cfg evalexpr_verif\" would enable them if any existed)",
   "baseline_off_cmd": "cd /repo && cargo test --workspace --no-fail-fast --offline",
   "source_commits": [],
   "add_only": True
 },
 "engines": [
   {"name": "vcheck", "path": "harness/checks", "serves_properties": [p for p in P if p not in ("C15","C16")], "kind_free_text": "Rust binary: exhaustive enumerators + proptest TestRunner (seeded from VERIF_SEED, shrinking per failure signature) against the refmodel crate"},
   {"name": "c15", "path": "harness/c15", "serves_properties": ["C15"], "kind_free_text": "separate crate: type-checks iff the eight types are Send + Sync; concurrent evaluation vs sequential oracle"},
   {"name": "c16", "path": "harness_serde/c16", "serves_properties": ["C16"], "kind_free_text": "separate workspace building evalexpr with feature serde; exact in-memory serde data-model format + serde_json"},
   {"name": "libfuzzer", "path": "fuzz", "serves_properties": ["C01","C02","C05","C07","C08","C11","C12","C13","C14"], "kind_free_text": "cargo-fuzz targets with the oracle inside the target (thorough tier only)"},
   {"name": "refmodel", "path": "harness/refmodel", "serves_properties": list(P), "kind_free_text": "reference tokenizer, parser, interpreter, builtins, context model and generators; does not depend on evalexpr"}
 ],
 "checks": checks,
 "not_applicable": [],
 "notes": "Exit codes: 0 held on everything explored (KNOWN-FINDING lines possible), 1 VIOLATION, 2 inconclusive (harness build failure, watchdog, abnormal termination). Nine genuine defects found on the pinned tree were repaired by `fix:` commits in /repo and are listed in known_findings.json as fixed; one further genuine defect (C09: a context function that itself fails with FunctionIdentifierNotFound is treated as not defined) needs a Context API change and is recorded there with status known: C09 prints a KNOWN-FINDING line for exactly that signature and exits 0."
}
json.dump(m,open('/verif/MANIFEST.json','w'),indent=1,ensure_ascii=False)
print("ok",len(checks))
