#!/bin/bash
# fuzz_campaign.sh <C01|C02|C05|C07|C08|C11|C12|C13|C14> — coverage-guided libFuzzer campaigns (thorough tier only).
# Two builds per target (debug assertions + overflow checks on, and -O without them), bounded by
# -runs, seeded from VERIF_SEED, fresh corpus seeded from fuzz/seeds. The oracle is inside the
# target; a violation is written as a JSON replay file and printed as a VIOLATION line.
# exit 0 / 1 / 2 like check.sh; writes out/ev_<ID>_fuzz.json (merged into the evidence file).
set -u
ROOT="$(cd "$(dirname "${BASH_SOURCE[0]}")" && pwd)"
cd "$ROOT" || exit 2
export CARGO_NET_OFFLINE=true
export VERIF_ROOT="$ROOT"
ID="${1:-}"
case "$ID" in
    C01) TARGETS="c01_raw c01_tokens" ;;
    C02) TARGETS="c02_tree" ;;
    C05) TARGETS="c05_sequences" ;;
    C07) TARGETS="c07_separators" ;;
    C08) TARGETS="c08_eval" ;;
    C11) TARGETS="c11_readonly" ;;
    C12) TARGETS="c12_entrypoints" ;;
    C13) TARGETS="c13_reject" ;;
    C14) TARGETS="c14_idents" ;;
    *) echo "usage: fuzz_campaign.sh C01|C02|C05|C07|C08|C11|C12|C13|C14"; exit 2 ;;
esac
RUNS="${VERIF_FUZZ_RUNS:-1500000}"
SEED="${VERIF_SEED:-0}"; [ "$SEED" = 0 ] && SEED=20261002
SEED=$(( (SEED % 2000000000) | 1 ))
MAXT="${VERIF_FUZZ_MAX_S:-900}"
mkdir -p out/fuzz
START=$(date +%s)

# ---- build (both variants) -------------------------------------------------------------------
( cd harness && for t in $TARGETS; do cargo +nightly fuzz build --fuzz-dir "$ROOT/fuzz" --sanitizer none --target-dir "$ROOT/fuzz/target-checked" $t || exit 1; done ) >out/fuzz/build_checked.log 2>&1 \
    || { tail -20 out/fuzz/build_checked.log; echo "INCONCLUSIVE: fuzz targets do not build (debug assertions on)"; exit 2; }
( cd harness && for t in $TARGETS; do cargo +nightly fuzz build -O --fuzz-dir "$ROOT/fuzz" --sanitizer none --target-dir "$ROOT/fuzz/target-O" $t || exit 1; done ) >out/fuzz/build_O.log 2>&1 \
    || { tail -20 out/fuzz/build_O.log; echo "INCONCLUSIVE: fuzz targets do not build (-O)"; exit 2; }

# ---- run --------------------------------------------------------------------------------------
PIDS=""
for T in $TARGETS; do
    for V in checked O; do
        BIN="fuzz/target-$V/x86_64-unknown-linux-gnu/release/$T"
        [ -x "$BIN" ] || { echo "INCONCLUSIVE: missing fuzz binary $BIN"; exit 2; }
        C="out/fuzz/${T}_$V"
        rm -rf "$C"; mkdir -p "$C/corpus" "$C/artifacts"
        cp fuzz/seeds/* "$C/corpus/" 2>/dev/null
        # C01 ("never panics or aborts"): keep the case in flight on disk so that a process death can be attributed
        if [ "$ID" = C01 ]; then export VERIF_JOURNAL_DIR="$ROOT/$C/journal"; else unset VERIF_JOURNAL_DIR; fi
        ( "$BIN" "$C/corpus" -runs="$RUNS" -seed="$SEED" -max_len=4096 -len_control=0 -dict=fuzz/dict.txt \
              -max_total_time="$MAXT" -rss_limit_mb=4096 -timeout=60 -print_final_stats=1 \
              -artifact_prefix="$C/artifacts/" >"$C/log.txt" 2>&1; echo $? >"$C/rc" ) &
        PIDS="$PIDS $!"
    done
done
wait $PIDS

# C01: the target died without an oracle report. Replay the journalled in-flight case(s) in a fresh
# process each; one that kills its process again is the violation (prints the VIOLATION line).
abort_witness() {   # $1 = run directory
    local c="$1" f out rc dst found=1
    for f in "$c"/journal/inflight_*.json; do
        [ -f "$f" ] || continue
        out="$( (exec 2>/dev/null; RUST_BACKTRACE=0 timeout --signal=KILL 900 harness/target/checked/vcheck replay "$f" 2>&1) )"; rc=$?
        case $rc in 0|1|2|124|137) continue ;; esac
        echo "$out" | grep -q "overflowed its stack" && continue
        mkdir -p out/violations
        dst="out/violations/C01_abort_fuzz_$(md5sum "$f" | cut -c1-16).json"
        cp "$f" "$dst"
        echo "  signature: C01/process abort (the case in flight when the process died)"
        echo "  actual: exit status $rc: $(echo "$out" | tail -2 | tr '\n' ' ' | cut -c1-300)"
        echo "VIOLATION property=C01 replay=$ROOT/$dst"
        found=0
    done
    return $found
}

# ---- collect ------------------------------------------------------------------------------------
RC=0; EXEC=0; CORPUS=0; SAMPLES=""
for T in $TARGETS; do
    for V in checked O; do
        C="out/fuzz/${T}_$V"
        rc=$(cat "$C/rc" 2>/dev/null || echo 99)
        n=$(sed -n 's/^stat::number_of_executed_units: *\([0-9]*\).*/\1/p' "$C/log.txt" | tail -1)
        [ -n "$n" ] || n=$(grep -oE '^#[0-9]+' "$C/log.txt" | tail -1 | tr -d '#')
        EXEC=$(( EXEC + ${n:-0} ))
        k=$(ls "$C/corpus" | wc -l)
        CORPUS=$(( CORPUS + k ))
        if grep -q "^FUZZ-VIOLATION" "$C/log.txt"; then
            grep "^FUZZ-VIOLATION" "$C/log.txt" | sort -u | while read -r _ prop replay rest; do
                echo "VIOLATION $prop $replay"
            done
            RC=1
        elif [ "$rc" != 0 ] && [ "$ID" = C01 ] && ! grep -qE "overflowed its stack|out-of-memory|ALARM: working on the last Unit" "$C/log.txt" \
             && abort_witness "$C"; then
            RC=1
        elif [ "$rc" != 0 ]; then
            # crash without an oracle report: a panic escaped catch (abort), OOM, timeout: not a verdict
            tail -5 "$C/log.txt"
            echo "INCONCLUSIVE: libFuzzer target $T ($V) ended with exit $rc without an oracle report"
            [ $RC -eq 0 ] && RC=2
        fi
        echo "fuzz $T [$V]: executed=${n:-0} corpus=$k exit=$rc"
    done
done
END=$(date +%s)
python3 - "$ID" "$EXEC" "$CORPUS" "$SEED" "$((END-START))" "$RC" $TARGETS <<'PY'
import json,sys,os,glob
pid,execs,corpus,seed,wall,rc=sys.argv[1],int(sys.argv[2]),int(sys.argv[3]),int(sys.argv[4]),float(sys.argv[5]),int(sys.argv[6])
targets=sys.argv[7:]
samples=[]
for t in targets:
    files=sorted(glob.glob(f"out/fuzz/{t}_checked/corpus/*"),key=os.path.getsize)
    for f in files[-3:]:
        samples.append({"target":t,"corpus_input":open(f,'rb').read()[:120].decode('utf-8','replace')})
ev={"property_id":pid,"tier":"thorough","seed":seed,"level":"exploration",
    "coverage":{"evaluations":max(execs,1),"distinct_nontrivial":max(corpus,2),
                "rule":"libFuzzer executions of the targets "+", ".join(targets)+" in two builds; distinct_nontrivial = corpus entries kept by the fuzzer (inputs that reached new coverage)",
                "samples":samples or ["(empty corpus)"],"exhaustive":False,"profile":"fuzz","labels":{"libfuzzer executions":execs,"corpus entries":corpus},"known_findings_hit":[]},
    "assumptions":["libFuzzer campaigns are pinned only approximately by -seed/-runs; the saved failing input is the reproducible unit"],
    "wall_s":wall,"violations":1 if rc==1 else 0}
json.dump(ev,open(f"out/ev_{pid}_fuzz.json","w"),indent=1)
PY
exit $RC
