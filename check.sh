#!/bin/bash
# check.sh <Cxx> [quick|thorough]   — build the harness against /repo's current working tree and
#                                      run one property's check; exit 0 / 1 (VIOLATION) / 2 (inconclusive)
# check.sh replay <file>             — re-execute a saved failing case (exit 1 if it still fails)
set -u
ROOT="$(cd "$(dirname "${BASH_SOURCE[0]}")" && pwd)"
cd "$ROOT" || exit 2
export CARGO_NET_OFFLINE=true
export VERIF_ROOT="$ROOT"
export RUST_BACKTRACE=0
mkdir -p out evidence

ID="${1:-}"
TIER="${2:-${VERIF_TIER:-quick}}"
if [ -z "$ID" ]; then
    echo "usage: check.sh <C01..C16> [quick|thorough] | check.sh replay <file>" >&2
    exit 2
fi

# ---------------------------------------------------------------------------------------------
build_main() {   # $1 = cargo profile name
    local prof="$1" flag
    if [ "$prof" = release ]; then flag="--release"; else flag="--profile $prof"; fi
    ( cd harness && cargo build $flag -p checks ) >"out/build_${prof}.log" 2>&1
}

inconclusive() {
    echo "INCONCLUSIVE: $*"
    exit 2
}

run_vcheck() {   # $1 = profile, rest = args; prints output, returns vcheck's exit code
    local prof="$1"; shift
    local limit="${VERIF_WATCHDOG_S:-7000}"
    timeout --signal=KILL "$limit" "harness/target/${prof}/vcheck" "$@"
    local rc=$?
    if [ $rc -eq 137 ] || [ $rc -eq 124 ]; then
        echo "INCONCLUSIVE: watchdog (${limit}s) stopped vcheck $*"
        return 2
    fi
    if [ $rc -ne 0 ] && [ $rc -ne 1 ] && [ $rc -ne 2 ]; then
        # the process died (abort / stack overflow / signal): not a verdict of the oracle
        echo "INCONCLUSIVE: vcheck $* terminated abnormally (exit $rc)"
        return 2
    fi
    return $rc
}

# C01 only ("nothing panics or aborts"): the harness process died. Run again with the in-flight
# journal on, then replay every journalled case in a process of its own; a case that kills its
# process again (other than by exhausting the stack, D12) is the violation. Returns 1 if one was
# found, 2 otherwise.
triage_abort() {   # $1 = profile
    local prof="$1" jd="out/journal/C01_$1" limit="${VERIF_WATCHDOG_S:-7000}" found=0 f out rc dst
    rm -rf "$jd"; mkdir -p "$jd" out/violations
    ( exec 2>/dev/null
      VERIF_JOURNAL_DIR="$ROOT/$jd" VERIF_EVIDENCE_OUT="$jd/evidence.json" \
        timeout --signal=KILL "$limit" "harness/target/${prof}/vcheck" C01 --tier "$TIER" >"$jd/stdout.txt" 2>"$jd/stderr.txt" )
    for f in "$jd"/inflight_*.json; do
        [ -f "$f" ] || continue
        out="$(timeout --signal=KILL 900 "harness/target/${prof}/vcheck" replay "$f" 2>&1)"; rc=$?
        case $rc in 0|1|2|124|137) continue ;; esac
        echo "$out" | grep -q "overflowed its stack" && continue
        dst="out/violations/C01_abort_$(md5sum "$f" | cut -c1-16).json"
        python3 - "$f" "$dst" "$rc" "$(echo "$out" | tail -5)" <<'PY'
import json,sys
j=json.load(open(sys.argv[1])); j["expected"]="returns without aborting the process"
j["actual"]="replaying the case alone ends the process with exit status %s: %s"%(sys.argv[3],sys.argv[4][-600:])
json.dump(j,open(sys.argv[2],"w"),indent=1,ensure_ascii=False)
PY
        echo "  signature: C01/process abort (the case in flight when the process died)"
        echo "  case: $(head -c 600 "$f")"
        echo "  actual: exit status $rc: $(echo "$out" | tail -2 | tr '\n' ' ' | cut -c1-300)"
        echo "VIOLATION property=C01 replay=$ROOT/$dst"
        found=1
    done
    if [ $found -eq 1 ]; then
        python3 - "$TIER" "${VERIF_SEED:-0}" "$prof" > "out/ev_C01_${prof}.json" <<'PY'
import json,sys
print(json.dumps({"property_id":"C01","tier":sys.argv[1],"seed":int(sys.argv[2] or 0),"level":"exploration",
 "coverage":{"evaluations":1,"distinct_nontrivial":1,"rule":"the run was cut short: the process was killed by the library under test; the case in flight was isolated by replaying the in-flight journal, one process per case",
  "samples":["see the replay file of the VIOLATION line"],"exhaustive":False,"profile":sys.argv[3]},
 "assumptions":[],"wall_s":0.0,"violations":1},indent=1))
PY
        return 1
    fi
    return 2
}

# ---------------------------------------------------------------------------------------------
if [ "$ID" = replay ]; then
    FILE="${2:-}"
    [ -f "$FILE" ] || inconclusive "no such replay file: $FILE"
    PROP="$(sed -n 's/.*"property"[[:space:]]*:[[:space:]]*"\([A-Z0-9]*\)".*/\1/p' "$FILE" | head -1)"
    case "$PROP" in
        C15) exec ./check_c15.sh replay "$FILE" ;;
        C16) exec ./check_c16.sh replay "$FILE" ;;
    esac
    PROF="$(sed -n 's/.*"profile"[[:space:]]*:[[:space:]]*"\([a-z]*\)".*/\1/p' "$FILE" | head -1)"
    [ -n "$PROF" ] || PROF=checked
    build_main "$PROF" || { tail -30 "out/build_${PROF}.log"; inconclusive "harness does not build against /repo"; }
    out="$(run_vcheck "$PROF" replay "$FILE" 2>&1)"; rc=$?
    if [ $rc -eq 2 ] && grep -q "process abort" "$FILE" && echo "$out" | grep -q "terminated abnormally" && ! echo "$out" | grep -q "overflowed its stack"; then
        # the witness of a process abort: it still kills the process
        echo "$out" | grep -v "^INCONCLUSIVE"
        echo "VIOLATION property=$PROP replay=$FILE"
        exit 1
    fi
    echo "$out"
    exit $rc
fi

case "$ID" in
    C15) exec ./check_c15.sh "$TIER" ;;
    C16) exec ./check_c16.sh "$TIER" ;;
esac

# C01, C03 and C10 run in both build profiles (DESIGN R5); the structural properties in `checked`.
case "$ID" in
    C01|C03|C10) PROFILES="checked release" ;;
    *) PROFILES="checked" ;;
esac

RC=0
PARTS=""
for PROF in $PROFILES; do
    build_main "$PROF" || { tail -30 "out/build_${PROF}.log"; inconclusive "harness does not build against /repo (profile $PROF)"; }
    PART="out/ev_${ID}_${PROF}.json"
    rm -f "$PART"
    out="$(VERIF_EVIDENCE_OUT="$PART" run_vcheck "$PROF" "$ID" --tier "$TIER" 2>&1)"
    rc=$?
    echo "$out"
    if [ "$ID" = C01 ] && [ $rc -eq 2 ] && echo "$out" | grep -q "terminated abnormally"; then
        triage_abort "$PROF"
        rc=$?
    fi
    [ -f "$PART" ] && PARTS="$PARTS $PART"
    if [ $rc -eq 1 ]; then RC=1; elif [ $rc -eq 2 ] && [ $RC -eq 0 ]; then RC=2; fi
done

# libFuzzer campaigns are part of the thorough tier of the properties that list them
if [ "$TIER" = thorough ] && [ -x ./fuzz_campaign.sh ]; then
    case "$ID" in
        C01|C02|C05|C07|C08|C11|C12|C13|C14)
            ./fuzz_campaign.sh "$ID"
            rc=$?
            if [ $rc -eq 1 ]; then RC=1; elif [ $rc -eq 2 ] && [ $RC -eq 0 ]; then RC=2; fi
            [ -f "out/ev_${ID}_fuzz.json" ] && PARTS="$PARTS out/ev_${ID}_fuzz.json"
            ;;
    esac
fi

if [ -n "$PARTS" ]; then
    FIRST="$(echo $PARTS | cut -d' ' -f1)"
    FPROF="$(echo $PROFILES | cut -d' ' -f1)"
    "harness/target/${FPROF}/vcheck" merge "evidence/${ID}.json" $PARTS || RC=2
else
    [ $RC -eq 0 ] && RC=2
fi
exit $RC
