// Shared decoding of fuzzer bytes into structured cases (arbitrary::Unstructured), and the
// violation reporter: the oracle lives inside the target; on a violation the target writes a JSON
// replay file understood by `check.sh replay` and aborts, so that libFuzzer keeps the input.

use arbitrary::Unstructured;
use refmodel::builtins::BUILTINS;
use refmodel::interp::{Ctx, Kind, UF};
use refmodel::tok::Tok;
use refmodel::value::RV;
use vchecks::common::Fail;
use vcore::serde_json::json;

pub fn pick<'a, T>(u: &mut Unstructured, items: &'a [T]) -> &'a T {
    let i = u.int_in_range(0..=items.len() - 1).unwrap_or(0);
    &items[i]
}

pub fn small_value(u: &mut Unstructured, depth: u32) -> RV {
    match u.int_in_range(0..=9u8).unwrap_or(0) {
        0 | 1 => RV::Int(*pick(u, &refmodel::pools::int_pool())),
        2 => RV::Int(u.arbitrary::<i64>().unwrap_or(0)),
        3 | 4 => RV::Float(*pick(u, &refmodel::pools::float_pool())),
        5 => RV::Float(f64::from_bits(u.arbitrary::<u64>().unwrap_or(0))),
        6 => RV::Str(pick(u, &refmodel::pools::string_pool()).to_string()),
        7 => RV::Bool(u.arbitrary().unwrap_or(false)),
        8 => RV::Empty,
        _ => {
            if depth == 0 {
                RV::Tuple(vec![])
            } else {
                let n = u.int_in_range(0..=3usize).unwrap_or(0);
                RV::Tuple((0..n).map(|_| small_value(u, depth - 1)).collect())
            }
        },
    }
}

pub fn context(u: &mut Unstructured) -> Ctx {
    let mut c = Ctx::new(Kind::HashMap);
    for name in ["a", "b", "c", "x"] {
        if u.ratio(2u8, 3u8).unwrap_or(false) {
            c.vars.insert(name.to_string(), small_value(u, 2));
        }
    }
    for name in ["f", "g", "h", "min", "str::from"] {
        if u.ratio(1u8, 2u8).unwrap_or(false) {
            let f = match u.int_in_range(0..=5u8).unwrap_or(0) {
                0 => UF::Identity,
                1 => UF::Const(small_value(u, 1)),
                2 => UF::Tag(2),
                3 => UF::Fail(1),
                4 => UF::IntPlus5,
                _ => UF::FirstNumber,
            };
            c.funcs.insert(name.to_string(), f);
        }
    }
    c.builtins_disabled = u.ratio(1u8, 5u8).unwrap_or(false);
    c
}

pub fn token(u: &mut Unstructured) -> Tok {
    let ops = refmodel::gen::op_tokens();
    match u.int_in_range(0..=11u8).unwrap_or(0) {
        0..=4 => pick(u, &ops).clone(),
        5 => Tok::LParen,
        6 => Tok::RParen,
        7 => {
            let idents = ["a", "b", "x", "f", "g", "foo", "ä", "a.b", "e", "1e", "0x", "true1"];
            if u.ratio(1u8, 3u8).unwrap_or(false) {
                Tok::Ident(pick(u, &BUILTINS).to_string())
            } else {
                Tok::Ident(pick(u, &idents).to_string())
            }
        },
        8 => {
            let i = *pick(u, &refmodel::pools::int_pool());
            Tok::Int(if i == i64::MIN { 0 } else { i.abs() })
        },
        9 => {
            let f = *pick(u, &refmodel::pools::float_pool());
            Tok::Float(if f.is_finite() { f.abs() } else { 2.5 })
        },
        10 => Tok::Bool(u.arbitrary().unwrap_or(true)),
        _ => Tok::Str(pick(u, &refmodel::pools::string_pool()).to_string()),
    }
}

pub fn tokens(u: &mut Unstructured, max: usize) -> Vec<Tok> {
    let n = u.int_in_range(0..=max).unwrap_or(0);
    (0..n).map(|_| token(u)).collect()
}

/// Token sequence for the structural targets: the generated tokens are rendered and read back by
/// the reference tokenizer, so that the sequence handed to the oracle is exactly what the source
/// text denotes (None when the text is outside the claimed lexical domain).
pub fn relexed(u: &mut Unstructured, max: usize) -> Option<Vec<Tok>> {
    let toks = tokens(u, max);
    let src = refmodel::tok::render_spaced(&toks);
    match refmodel::tok::lex(&src) {
        Ok(o) if !o.d6 => Some(o.toks),
        _ => None,
    }
}

/// Report unless the failure is the harness's own consistency alarm (not a verdict on evalexpr).
pub fn report_checked(property: &str, r: Result<(), Fail>) {
    if let Err(f) = r {
        if f.signature.starts_with("HARNESS/") {
            return;
        }
        report(property, f);
    }
}

/// Report an oracle violation found by a fuzz target.
pub fn report(property: &str, f: Fail) -> ! {
    let root = vcore::verif_root();
    let dir = root.join("out").join("violations");
    let _ = std::fs::create_dir_all(&dir);
    let path = dir.join(format!("{}_fuzz_{:016x}.json", property, vcore::hash_str(&f.signature)));
    let j = json!({
        "property": property,
        "subcheck": "libfuzzer",
        "signature": f.signature,
        "case": f.case,
        "expected": f.expected,
        "actual": f.actual,
        "profile": "checked",
    });
    let _ = std::fs::write(&path, vcore::serde_json::to_string_pretty(&j).unwrap());
    eprintln!("FUZZ-VIOLATION property={} replay={} signature={}", property, path.display(), j["signature"]);
    std::process::abort()
}
