#![no_main]
// C07: bytes -> token sequence + two separator assignments; oracle: metamorphic (equal trees or
// same error variant), admissibility asserted by the reference tokenizer inside check_case.
mod shared;
use arbitrary::Unstructured;
use libfuzzer_sys::fuzz_target;
use vchecks::c07::{check_case, Item, SepCase};

fn item(u: &mut Unstructured) -> Item {
    let texts = ["", " ", "x", "\"", "//", "/*", "/", "*", "+", "=", "&", "1e", "ä", "a b", "\n", "**", "\r", "\u{2028}", "(", ")"];
    match u.int_in_range(0..=9u8).unwrap_or(0) {
        0..=5 => Item::Ws(u.int_in_range(0..=24usize).unwrap_or(5)),
        6 => Item::Block(String::new()),
        7 | 8 => {
            let mut t: String = (0..u.int_in_range(0..=3usize).unwrap_or(0)).map(|_| *shared::pick(u, &texts)).collect();
            while t.contains("*/") {
                t = t.replace("*/", "* /");
            }
            if t.ends_with('*') {
                t.push(' ');
            }
            Item::Block(t)
        },
        _ => {
            let t: String = (0..u.int_in_range(0..=3usize).unwrap_or(0)).map(|_| *shared::pick(u, &texts)).collect();
            Item::Line(t.replace('\n', " "))
        },
    }
}

fn gaps(u: &mut Unstructured, n: usize) -> Vec<Vec<Item>> {
    (0..n)
        .map(|_| {
            let k = if u.ratio(2u8, 5u8).unwrap_or(true) { 0 } else { u.int_in_range(1..=3usize).unwrap_or(1) };
            (0..k).map(|_| item(u)).collect()
        })
        .collect()
}

fuzz_target!(|data: &[u8]| {
    let mut u = Unstructured::new(data);
    let toks = shared::tokens(&mut u, 12);
    let n = toks.len() + 1;
    let s1 = gaps(&mut u, n);
    let s2 = gaps(&mut u, n);
    let mut l = vcore::Local::default();
    if let Err(f) = check_case(&SepCase { toks, s1, s2 }, &mut l) {
        shared::report("C07", f);
    }
});
