#![no_main]
// C14: bytes -> (source, context recipe, renaming); oracle: reference occurrence list of the
// reference parse, sub-sequence laws, not-found names listed, renaming equivariance.
mod shared;
use arbitrary::Unstructured;
use libfuzzer_sys::fuzz_target;
use vchecks::programs::render_style;

fuzz_target!(|data: &[u8]| {
    let mut u = Unstructured::new(data);
    let ctx = shared::context(&mut u);
    let perm = u.arbitrary::<u8>().unwrap_or(0);
    let style = u.int_in_range(0..=1u8).unwrap_or(0);
    let toks = shared::tokens(&mut u, 24);
    let src = render_style(&toks, style);
    let mut l = vcore::Local::default();
    shared::report_checked("C14", vchecks::c14::check_source(&src, &ctx, perm, None, &mut l));
});
