#![no_main]
// C08: bytes -> (token sequence, context recipe with recording / failing user functions);
// oracle: the reference interpreter's (result, call log, final variables).
mod shared;
use arbitrary::Unstructured;
use libfuzzer_sys::fuzz_target;
use vchecks::programs::render_style;

fuzz_target!(|data: &[u8]| {
    let mut u = Unstructured::new(data);
    let ctx = shared::context(&mut u);
    let style = u.int_in_range(0..=1u8).unwrap_or(0);
    let toks = shared::tokens(&mut u, 24);
    let src = render_style(&toks, style);
    let mut l = vcore::Local::default();
    shared::report_checked("C08", vchecks::c08::check_source("C08", &src, &ctx, None, &mut l));
});
