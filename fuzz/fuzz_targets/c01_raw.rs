#![no_main]
// C01: bytes -> (context recipe, UTF-8 lossy source text <= 4096 chars) -> every entry point,
// iterator and formatter; oracle: returns without unwinding.
mod shared;
use arbitrary::Unstructured;
use libfuzzer_sys::fuzz_target;
use vchecks::programs::Program;

fuzz_target!(|data: &[u8]| {
    if data.len() < 4 {
        return;
    }
    let (head, tail) = data.split_at(data.len().min(24));
    let mut u = Unstructured::new(head);
    let ctx = shared::context(&mut u);
    let src: String = String::from_utf8_lossy(tail).chars().take(4096).collect();
    let p = Program { family: "raw", src, ast: None, ctx };
    // crash triage: when VERIF_JOURNAL_DIR is set the case in flight is kept on disk in replay format
    vcore::journal("C01", || p.case_json());
    if let Err(pi) = vcore::catch(|| vchecks::c01::exercise(&p.src, &p.ctx)) {
        shared::report(
            "C01",
            vchecks::common::Fail {
                signature: format!("C01 {}", pi.signature()),
                expected: "returns without unwinding".into(),
                actual: format!("panic: {} at {}", pi.message, pi.location),
                case: p.case_json(),
                size: p.src.len(),
            },
        );
    }
});
