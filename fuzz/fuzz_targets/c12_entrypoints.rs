#![no_main]
// C12: bytes -> (source, context recipe); oracle: every one of the 48 entry points is the
// projection of the untyped result (differential inside the target).
mod shared;
use arbitrary::Unstructured;
use libfuzzer_sys::fuzz_target;
use vchecks::programs::{render_style, Program};

fuzz_target!(|data: &[u8]| {
    if data.len() < 4 {
        return;
    }
    let mut u = Unstructured::new(data);
    let ctx = shared::context(&mut u);
    let src = if u.ratio(1u8, 2u8).unwrap_or(false) {
        let style = u.arbitrary::<u8>().unwrap_or(0);
        render_style(&shared::tokens(&mut u, 24), style)
    } else {
        let rest = u.take_rest();
        String::from_utf8_lossy(rest).chars().take(512).collect()
    };
    let p = Program { family: "fuzz", src, ast: None, ctx };
    let mut l = vcore::Local::default();
    if let Err(f) = vchecks::c12::check_program(&p, &mut l) {
        shared::report("C12", f);
    }
});
