#![no_main]
// C11: bytes -> (source, context recipe); oracle: immutable evaluation equals mutable evaluation
// on a clone for assignment-free programs, is the reference projection otherwise, never mutates;
// storage-less contexts reject every assignment.
mod shared;
use arbitrary::Unstructured;
use libfuzzer_sys::fuzz_target;
use vchecks::programs::{render_style, Program};

fuzz_target!(|data: &[u8]| {
    let mut u = Unstructured::new(data);
    let ctx = shared::context(&mut u);
    let style = u.int_in_range(0..=1u8).unwrap_or(0);
    let toks = shared::tokens(&mut u, 24);
    let p = Program { family: "fuzz", src: render_style(&toks, style), ast: None, ctx };
    let mut l = vcore::Local::default();
    shared::report_checked("C11", vchecks::c11::check_program(&p, &mut l));
    shared::report_checked("C11", vchecks::c11::check_storageless(&p, &mut l));
});
