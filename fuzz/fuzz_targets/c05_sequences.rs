#![no_main]
// C05: bytes -> token sequence with separators; oracle: reference tree and reference value /
// effects of the tuple and chain structure.
mod shared;
use arbitrary::Unstructured;
use libfuzzer_sys::fuzz_target;

fuzz_target!(|data: &[u8]| {
    let mut u = Unstructured::new(data);
    let Some(toks) = shared::relexed(&mut u, 24) else { return };
    let mut l = vcore::Local::default();
    shared::report_checked("C05", vchecks::c05::check_tokens(&toks, &mut l));
});
