#![no_main]
// C13: bytes -> token sequence (+ context recipe); oracle: the local ill-formedness recogniser
// (unbalanced <=> rejected as unbalanced; ill-formed => never evaluates successfully), spaced and
// tight renderings, generous and generated contexts.
mod shared;
use arbitrary::Unstructured;
use libfuzzer_sys::fuzz_target;

fuzz_target!(|data: &[u8]| {
    let mut u = Unstructured::new(data);
    let ctx = shared::context(&mut u);
    let tight = u.arbitrary::<bool>().unwrap_or(false);
    let with_ctx = u.arbitrary::<bool>().unwrap_or(false);
    let Some(toks) = shared::relexed(&mut u, 24) else { return };
    let mut l = vcore::Local::default();
    let base = if with_ctx { Some(&ctx) } else { None };
    shared::report_checked("C13", vchecks::c13::check_tokens_rendered(&toks, base, tight, &mut l));
});
