#![no_main]
// C02: bytes -> token sequence; oracle: the reference precedence-climbing parse of a well-formed
// sequence must equal the built tree (parenthesis wrappers ignored).
mod shared;
use arbitrary::Unstructured;
use libfuzzer_sys::fuzz_target;

fuzz_target!(|data: &[u8]| {
    let mut u = Unstructured::new(data);
    let Some(toks) = shared::relexed(&mut u, 24) else { return };
    let mut l = vcore::Local::default();
    shared::report_checked("C02", vchecks::c02::check_tokens(&toks, "libfuzzer", &mut l));
});
