#![no_main]
// C01: bytes -> token soup + context recipe, rendered tight or spaced.
mod shared;
use arbitrary::Unstructured;
use libfuzzer_sys::fuzz_target;
use vchecks::programs::{render_style, Program};

fuzz_target!(|data: &[u8]| {
    let mut u = Unstructured::new(data);
    let ctx = shared::context(&mut u);
    let style = u.arbitrary::<u8>().unwrap_or(0);
    let toks = shared::tokens(&mut u, 40);
    let src = render_style(&toks, style);
    if src.chars().count() > 4096 {
        return;
    }
    let p = Program { family: "soup", src, ast: None, ctx };
    // crash triage: when VERIF_JOURNAL_DIR is set the case in flight is kept on disk in replay format
    vcore::journal("C01", || p.case_json());
    if let Err(pi) = vcore::catch(|| vchecks::c01::exercise(&p.src, &p.ctx)) {
        shared::report(
            "C01",
            vchecks::common::Fail {
                signature: format!("C01 {}", pi.signature()),
                expected: "returns without unwinding".into(),
                actual: format!("panic: {} at {}", pi.message, pi.location),
                case: p.case_json(),
                size: p.src.len(),
            },
        );
    }
});
