#!/bin/bash
# tools/run_seeded.sh <patch.diff> [ids...]  — apply a seeded change to /repo, run the quick checks,
# undo it straight afterwards. Prints one line per check: id exit-code first-violation-signature.
set -u
PATCH="$(realpath "$1")"; shift
IDS="${*:-C01 C02 C03 C04 C05 C06 C07 C08 C09 C10 C11 C12 C13 C14 C15 C16}"
cd /verif || exit 2
if ! git -C /repo diff --quiet; then echo "/repo has uncommitted changes"; exit 2; fi
trap 'git -C /repo checkout -- . ; git -C /repo clean -fdq -- tests src' EXIT
git -C /repo apply "$PATCH" || { echo "patch does not apply"; exit 2; }
for id in $IDS; do
    out="$(VERIF_EVIDENCE_SKIP=1 ./check.sh "$id" quick 2>&1)"
    rc=$?
    sig="$(echo "$out" | grep -m1 "signature:" | sed 's/^ *signature: //' | cut -c1-150)"
    nv="$(echo "$out" | grep -c '^VIOLATION')"
    echo "$id rc=$rc violations=$nv ${sig}"
done
