#!/bin/bash
# tools/confirm_seed.sh <worktree> <dir with patch.diff + demo.rs> [cargo feature flags]
# Confirms in a scratch worktree: (1) suite passes with the change, (2) demo fails with the change,
# (3) demo passes without it. Leaves the worktree clean.
set -u
WT="$1"; D="$(realpath "$2")"; FEAT="${3:-}"
cd "$WT" || exit 2
git checkout -q -- . ; git clean -fdq -- tests src
git apply "$D/patch.diff" || { echo "CONFIRM patch-does-not-apply"; exit 1; }
if git diff --name-only | grep -v '^src/' | grep -q .; then echo "CONFIRM patch-touches-non-src"; fi
suite="$(cargo test --offline $FEAT 2>&1)"
if echo "$suite" | grep -qE "^test result: FAILED|^error|could not compile"; then s1=FAIL; else s1=pass; fi
npass="$(echo "$suite" | grep -E '^test result: ok' | sed 's/.*ok\. \([0-9]*\) passed.*/\1/' | paste -sd+ | bc)"
cp "$D/demo.rs" tests/zz_demo.rs
with="$(cargo test --offline $FEAT --test zz_demo 2>&1)"
if echo "$with" | grep -qE "^test result: FAILED|^error|could not compile"; then s2=fails; else s2=PASSES; fi
git checkout -q -- . ; 
without="$(cargo test --offline $FEAT --test zz_demo 2>&1)"
if echo "$without" | grep -qE "^test result: ok" && ! echo "$without" | grep -qE "^test result: FAILED|could not compile"; then s3=passes; else s3=FAILS; fi
rm -f tests/zz_demo.rs
git checkout -q -- . ; git clean -fdq -- tests src
echo "CONFIRM suite-with-change=$s1($npass passed) demo-with-change=$s2 demo-without-change=$s3"
