#!/bin/bash
# Confirm every delivered seeded change and run all quick checks against it.
OUT=/tmp/seedout/results.txt
: > $OUT
for id in C01 C02 C03 C04 C05 C06 C07 C08 C09 C10 C11 C12 C13 C14 C15 C16; do
  for m in m1 m2; do
    d=/tmp/seedout/$id/$m
    [ -f $d/patch.diff ] || { echo "## $id/$m missing" >> $OUT; continue; }
    feat=""; [ $id = C16 ] && feat="--features serde"
    echo "## $id/$m" >> $OUT
    /verif/tools/confirm_seed.sh /tmp/wt/$id $d "$feat" >> $OUT 2>&1
    /verif/tools/run_seeded.sh $d/patch.diff >> $OUT 2>&1
  done
done
echo "## DONE" >> $OUT
