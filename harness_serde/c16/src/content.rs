//! An exact, self-describing in-memory mirror of the serde data model. Serialising into `Content`
//! and deserialising from it involves no text, so floats are bit-exact by construction and any
//! difference after a round trip is attributable to the (derived) impls under test.

use std::fmt;

use serde::de::{self, DeserializeSeed, EnumAccess, IntoDeserializer, MapAccess, SeqAccess, VariantAccess, Visitor};
use serde::ser::{self, Serialize};

#[derive(Clone, Debug, PartialEq)]
pub enum Content {
    Bool(bool),
    I64(i64),
    U64(u64),
    F64(u64), // bit pattern
    F32(u32),
    Char(char),
    Str(String),
    Bytes(Vec<u8>),
    None,
    Some(Box<Content>),
    Unit,
    UnitStruct(&'static str),
    NewtypeStruct(&'static str, Box<Content>),
    Seq(Vec<Content>),
    Tuple(Vec<Content>),
    TupleStruct(&'static str, Vec<Content>),
    Map(Vec<(Content, Content)>),
    Struct(&'static str, Vec<(&'static str, Content)>),
    UnitVariant(&'static str, u32, &'static str),
    NewtypeVariant(&'static str, u32, &'static str, Box<Content>),
    TupleVariant(&'static str, u32, &'static str, Vec<Content>),
    StructVariant(&'static str, u32, &'static str, Vec<(&'static str, Content)>),
}

#[derive(Debug, Clone, PartialEq)]
pub struct Error(pub String);

impl fmt::Display for Error {
    fn fmt(&self, f: &mut fmt::Formatter) -> fmt::Result {
        f.write_str(&self.0)
    }
}
impl std::error::Error for Error {}
impl ser::Error for Error {
    fn custom<T: fmt::Display>(msg: T) -> Self {
        Error(msg.to_string())
    }
}
impl de::Error for Error {
    fn custom<T: fmt::Display>(msg: T) -> Self {
        Error(msg.to_string())
    }
}

pub fn to_content<T: Serialize + ?Sized>(v: &T) -> Result<Content, Error> {
    v.serialize(Ser)
}

pub fn from_content<'de, T: de::Deserialize<'de>>(c: Content) -> Result<T, Error> {
    T::deserialize(De(c))
}

// ---------------------------------------------------------------------------------------------
// serializer
// ---------------------------------------------------------------------------------------------

pub struct Ser;

pub struct SeqSer {
    kind: SeqKind,
    items: Vec<Content>,
}
enum SeqKind {
    Seq,
    Tuple,
    TupleStruct(&'static str),
    TupleVariant(&'static str, u32, &'static str),
}
pub struct MapSer {
    items: Vec<(Content, Content)>,
    key: Option<Content>,
}
pub struct StructSer {
    kind: StructKind,
    fields: Vec<(&'static str, Content)>,
}
enum StructKind {
    Struct(&'static str),
    Variant(&'static str, u32, &'static str),
}

impl ser::Serializer for Ser {
    type Ok = Content;
    type Error = Error;
    type SerializeSeq = SeqSer;
    type SerializeTuple = SeqSer;
    type SerializeTupleStruct = SeqSer;
    type SerializeTupleVariant = SeqSer;
    type SerializeMap = MapSer;
    type SerializeStruct = StructSer;
    type SerializeStructVariant = StructSer;

    fn serialize_bool(self, v: bool) -> Result<Content, Error> {
        Ok(Content::Bool(v))
    }
    fn serialize_i8(self, v: i8) -> Result<Content, Error> {
        Ok(Content::I64(v as i64))
    }
    fn serialize_i16(self, v: i16) -> Result<Content, Error> {
        Ok(Content::I64(v as i64))
    }
    fn serialize_i32(self, v: i32) -> Result<Content, Error> {
        Ok(Content::I64(v as i64))
    }
    fn serialize_i64(self, v: i64) -> Result<Content, Error> {
        Ok(Content::I64(v))
    }
    fn serialize_u8(self, v: u8) -> Result<Content, Error> {
        Ok(Content::U64(v as u64))
    }
    fn serialize_u16(self, v: u16) -> Result<Content, Error> {
        Ok(Content::U64(v as u64))
    }
    fn serialize_u32(self, v: u32) -> Result<Content, Error> {
        Ok(Content::U64(v as u64))
    }
    fn serialize_u64(self, v: u64) -> Result<Content, Error> {
        Ok(Content::U64(v))
    }
    fn serialize_f32(self, v: f32) -> Result<Content, Error> {
        Ok(Content::F32(v.to_bits()))
    }
    fn serialize_f64(self, v: f64) -> Result<Content, Error> {
        Ok(Content::F64(v.to_bits()))
    }
    fn serialize_char(self, v: char) -> Result<Content, Error> {
        Ok(Content::Char(v))
    }
    fn serialize_str(self, v: &str) -> Result<Content, Error> {
        Ok(Content::Str(v.to_string()))
    }
    fn serialize_bytes(self, v: &[u8]) -> Result<Content, Error> {
        Ok(Content::Bytes(v.to_vec()))
    }
    fn serialize_none(self) -> Result<Content, Error> {
        Ok(Content::None)
    }
    fn serialize_some<T: Serialize + ?Sized>(self, value: &T) -> Result<Content, Error> {
        Ok(Content::Some(Box::new(value.serialize(Ser)?)))
    }
    fn serialize_unit(self) -> Result<Content, Error> {
        Ok(Content::Unit)
    }
    fn serialize_unit_struct(self, name: &'static str) -> Result<Content, Error> {
        Ok(Content::UnitStruct(name))
    }
    fn serialize_unit_variant(self, name: &'static str, idx: u32, variant: &'static str) -> Result<Content, Error> {
        Ok(Content::UnitVariant(name, idx, variant))
    }
    fn serialize_newtype_struct<T: Serialize + ?Sized>(self, name: &'static str, value: &T) -> Result<Content, Error> {
        Ok(Content::NewtypeStruct(name, Box::new(value.serialize(Ser)?)))
    }
    fn serialize_newtype_variant<T: Serialize + ?Sized>(
        self,
        name: &'static str,
        idx: u32,
        variant: &'static str,
        value: &T,
    ) -> Result<Content, Error> {
        Ok(Content::NewtypeVariant(name, idx, variant, Box::new(value.serialize(Ser)?)))
    }
    fn serialize_seq(self, len: Option<usize>) -> Result<SeqSer, Error> {
        Ok(SeqSer { kind: SeqKind::Seq, items: Vec::with_capacity(len.unwrap_or(0)) })
    }
    fn serialize_tuple(self, len: usize) -> Result<SeqSer, Error> {
        Ok(SeqSer { kind: SeqKind::Tuple, items: Vec::with_capacity(len) })
    }
    fn serialize_tuple_struct(self, name: &'static str, len: usize) -> Result<SeqSer, Error> {
        Ok(SeqSer { kind: SeqKind::TupleStruct(name), items: Vec::with_capacity(len) })
    }
    fn serialize_tuple_variant(self, name: &'static str, idx: u32, variant: &'static str, len: usize) -> Result<SeqSer, Error> {
        Ok(SeqSer { kind: SeqKind::TupleVariant(name, idx, variant), items: Vec::with_capacity(len) })
    }
    fn serialize_map(self, len: Option<usize>) -> Result<MapSer, Error> {
        Ok(MapSer { items: Vec::with_capacity(len.unwrap_or(0)), key: None })
    }
    fn serialize_struct(self, name: &'static str, len: usize) -> Result<StructSer, Error> {
        Ok(StructSer { kind: StructKind::Struct(name), fields: Vec::with_capacity(len) })
    }
    fn serialize_struct_variant(self, name: &'static str, idx: u32, variant: &'static str, len: usize) -> Result<StructSer, Error> {
        Ok(StructSer { kind: StructKind::Variant(name, idx, variant), fields: Vec::with_capacity(len) })
    }
}

impl SeqSer {
    fn finish(self) -> Content {
        match self.kind {
            SeqKind::Seq => Content::Seq(self.items),
            SeqKind::Tuple => Content::Tuple(self.items),
            SeqKind::TupleStruct(n) => Content::TupleStruct(n, self.items),
            SeqKind::TupleVariant(n, i, v) => Content::TupleVariant(n, i, v, self.items),
        }
    }
}
impl ser::SerializeSeq for SeqSer {
    type Ok = Content;
    type Error = Error;
    fn serialize_element<T: Serialize + ?Sized>(&mut self, value: &T) -> Result<(), Error> {
        self.items.push(value.serialize(Ser)?);
        Ok(())
    }
    fn end(self) -> Result<Content, Error> {
        Ok(self.finish())
    }
}
impl ser::SerializeTuple for SeqSer {
    type Ok = Content;
    type Error = Error;
    fn serialize_element<T: Serialize + ?Sized>(&mut self, value: &T) -> Result<(), Error> {
        self.items.push(value.serialize(Ser)?);
        Ok(())
    }
    fn end(self) -> Result<Content, Error> {
        Ok(self.finish())
    }
}
impl ser::SerializeTupleStruct for SeqSer {
    type Ok = Content;
    type Error = Error;
    fn serialize_field<T: Serialize + ?Sized>(&mut self, value: &T) -> Result<(), Error> {
        self.items.push(value.serialize(Ser)?);
        Ok(())
    }
    fn end(self) -> Result<Content, Error> {
        Ok(self.finish())
    }
}
impl ser::SerializeTupleVariant for SeqSer {
    type Ok = Content;
    type Error = Error;
    fn serialize_field<T: Serialize + ?Sized>(&mut self, value: &T) -> Result<(), Error> {
        self.items.push(value.serialize(Ser)?);
        Ok(())
    }
    fn end(self) -> Result<Content, Error> {
        Ok(self.finish())
    }
}
impl ser::SerializeMap for MapSer {
    type Ok = Content;
    type Error = Error;
    fn serialize_key<T: Serialize + ?Sized>(&mut self, key: &T) -> Result<(), Error> {
        self.key = Some(key.serialize(Ser)?);
        Ok(())
    }
    fn serialize_value<T: Serialize + ?Sized>(&mut self, value: &T) -> Result<(), Error> {
        let k = self.key.take().ok_or_else(|| Error("value without key".into()))?;
        self.items.push((k, value.serialize(Ser)?));
        Ok(())
    }
    fn end(self) -> Result<Content, Error> {
        Ok(Content::Map(self.items))
    }
}
impl ser::SerializeStruct for StructSer {
    type Ok = Content;
    type Error = Error;
    fn serialize_field<T: Serialize + ?Sized>(&mut self, key: &'static str, value: &T) -> Result<(), Error> {
        self.fields.push((key, value.serialize(Ser)?));
        Ok(())
    }
    fn end(self) -> Result<Content, Error> {
        Ok(match self.kind {
            StructKind::Struct(n) => Content::Struct(n, self.fields),
            StructKind::Variant(n, i, v) => Content::StructVariant(n, i, v, self.fields),
        })
    }
}
impl ser::SerializeStructVariant for StructSer {
    type Ok = Content;
    type Error = Error;
    fn serialize_field<T: Serialize + ?Sized>(&mut self, key: &'static str, value: &T) -> Result<(), Error> {
        self.fields.push((key, value.serialize(Ser)?));
        Ok(())
    }
    fn end(self) -> Result<Content, Error> {
        Ok(match self.kind {
            StructKind::Struct(n) => Content::Struct(n, self.fields),
            StructKind::Variant(n, i, v) => Content::StructVariant(n, i, v, self.fields),
        })
    }
}

// ---------------------------------------------------------------------------------------------
// deserializer
// ---------------------------------------------------------------------------------------------

pub struct De(pub Content);

struct SeqDe(std::vec::IntoIter<Content>);
impl<'de> SeqAccess<'de> for SeqDe {
    type Error = Error;
    fn next_element_seed<T: DeserializeSeed<'de>>(&mut self, seed: T) -> Result<Option<T::Value>, Error> {
        match self.0.next() {
            Some(c) => seed.deserialize(De(c)).map(Some),
            None => Ok(None),
        }
    }
    fn size_hint(&self) -> Option<usize> {
        Some(self.0.len())
    }
}

struct MapDe {
    iter: std::vec::IntoIter<(Content, Content)>,
    value: Option<Content>,
}
impl<'de> MapAccess<'de> for MapDe {
    type Error = Error;
    fn next_key_seed<K: DeserializeSeed<'de>>(&mut self, seed: K) -> Result<Option<K::Value>, Error> {
        match self.iter.next() {
            Some((k, v)) => {
                self.value = Some(v);
                seed.deserialize(De(k)).map(Some)
            },
            None => Ok(None),
        }
    }
    fn next_value_seed<V: DeserializeSeed<'de>>(&mut self, seed: V) -> Result<V::Value, Error> {
        let v = self.value.take().ok_or_else(|| Error("value without key".into()))?;
        seed.deserialize(De(v))
    }
}

fn fields_to_map(fields: Vec<(&'static str, Content)>) -> MapDe {
    let items: Vec<(Content, Content)> = fields.into_iter().map(|(k, v)| (Content::Str(k.to_string()), v)).collect();
    MapDe { iter: items.into_iter(), value: None }
}

struct EnumDe {
    variant: &'static str,
    payload: Payload,
}
enum Payload {
    Unit,
    Newtype(Content),
    Tuple(Vec<Content>),
    Struct(Vec<(&'static str, Content)>),
}
impl<'de> EnumAccess<'de> for EnumDe {
    type Error = Error;
    type Variant = Payload;
    fn variant_seed<V: DeserializeSeed<'de>>(self, seed: V) -> Result<(V::Value, Payload), Error> {
        let de: de::value::StrDeserializer<Error> = self.variant.into_deserializer();
        Ok((seed.deserialize(de)?, self.payload))
    }
}
impl<'de> VariantAccess<'de> for Payload {
    type Error = Error;
    fn unit_variant(self) -> Result<(), Error> {
        match self {
            Payload::Unit => Ok(()),
            _ => Err(Error("expected a unit variant".into())),
        }
    }
    fn newtype_variant_seed<T: DeserializeSeed<'de>>(self, seed: T) -> Result<T::Value, Error> {
        match self {
            Payload::Newtype(c) => seed.deserialize(De(c)),
            _ => Err(Error("expected a newtype variant".into())),
        }
    }
    fn tuple_variant<V: Visitor<'de>>(self, _len: usize, visitor: V) -> Result<V::Value, Error> {
        match self {
            Payload::Tuple(v) => visitor.visit_seq(SeqDe(v.into_iter())),
            _ => Err(Error("expected a tuple variant".into())),
        }
    }
    fn struct_variant<V: Visitor<'de>>(self, _fields: &'static [&'static str], visitor: V) -> Result<V::Value, Error> {
        match self {
            Payload::Struct(f) => visitor.visit_map(fields_to_map(f)),
            _ => Err(Error("expected a struct variant".into())),
        }
    }
}

impl<'de> de::Deserializer<'de> for De {
    type Error = Error;

    fn deserialize_any<V: Visitor<'de>>(self, visitor: V) -> Result<V::Value, Error> {
        match self.0 {
            Content::Bool(b) => visitor.visit_bool(b),
            Content::I64(i) => visitor.visit_i64(i),
            Content::U64(u) => visitor.visit_u64(u),
            Content::F64(b) => visitor.visit_f64(f64::from_bits(b)),
            Content::F32(b) => visitor.visit_f32(f32::from_bits(b)),
            Content::Char(c) => visitor.visit_char(c),
            Content::Str(s) => visitor.visit_string(s),
            Content::Bytes(b) => visitor.visit_byte_buf(b),
            Content::None => visitor.visit_none(),
            Content::Some(c) => visitor.visit_some(De(*c)),
            Content::Unit | Content::UnitStruct(_) => visitor.visit_unit(),
            Content::NewtypeStruct(_, c) => visitor.visit_newtype_struct(De(*c)),
            Content::Seq(v) | Content::Tuple(v) | Content::TupleStruct(_, v) => visitor.visit_seq(SeqDe(v.into_iter())),
            Content::Map(m) => visitor.visit_map(MapDe { iter: m.into_iter(), value: None }),
            Content::Struct(_, f) => visitor.visit_map(fields_to_map(f)),
            Content::UnitVariant(_, _, v) => visitor.visit_enum(EnumDe { variant: v, payload: Payload::Unit }),
            Content::NewtypeVariant(_, _, v, c) => visitor.visit_enum(EnumDe { variant: v, payload: Payload::Newtype(*c) }),
            Content::TupleVariant(_, _, v, items) => visitor.visit_enum(EnumDe { variant: v, payload: Payload::Tuple(items) }),
            Content::StructVariant(_, _, v, f) => visitor.visit_enum(EnumDe { variant: v, payload: Payload::Struct(f) }),
        }
    }

    fn deserialize_option<V: Visitor<'de>>(self, visitor: V) -> Result<V::Value, Error> {
        match self.0 {
            Content::None | Content::Unit => visitor.visit_none(),
            Content::Some(c) => visitor.visit_some(De(*c)),
            other => visitor.visit_some(De(other)),
        }
    }

    fn deserialize_newtype_struct<V: Visitor<'de>>(self, _name: &'static str, visitor: V) -> Result<V::Value, Error> {
        match self.0 {
            Content::NewtypeStruct(_, c) => visitor.visit_newtype_struct(De(*c)),
            other => visitor.visit_newtype_struct(De(other)),
        }
    }

    fn deserialize_enum<V: Visitor<'de>>(
        self,
        _name: &'static str,
        _variants: &'static [&'static str],
        visitor: V,
    ) -> Result<V::Value, Error> {
        self.deserialize_any(visitor)
    }

    serde::forward_to_deserialize_any! {
        bool i8 i16 i32 i64 i128 u8 u16 u32 u64 u128 f32 f64 char str string bytes byte_buf unit unit_struct seq tuple
        tuple_struct map struct identifier ignored_any
    }
}
