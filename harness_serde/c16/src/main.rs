//! C16 — serde support round-trips expressions and contexts (evalexpr built with feature serde).
#![allow(dead_code)]

#[path = "../../../harness/checks/src/common.rs"]
mod common;
mod content;
#[path = "../../../harness/checks/src/programs.rs"]
mod programs;

use std::path::Path;

use adapt::{build_hashmap, new_log, observe, state_diff, take_log, HCtx, Tree};
use common::{fail, Outcome};
use evalexpr::{Context, DefaultNumericTypes, EvalexprError};
use proptest::prelude::*;
use proptest::sample::select;
use refmodel::gen;
use refmodel::interp::{Ctx, Kind};
use serde::de::IntoDeserializer;
use serde::Deserialize;
use vcore::serde_json::{json, Value as J};
use vcore::{Local, Report, Tier};

/// Tree equality with NaN == NaN (D13): derived PartialEq, or identical Debug text.
fn tree_same(a: &Tree, b: &Tree) -> bool {
    a == b || format!("{:?}", a) == format!("{:?}", b)
}

fn src_case(src: &str) -> J {
    json!({"kind": "node", "src": src})
}

/// One edit of a source string; positions are mapped monotonically onto the candidates.
#[derive(Clone, Debug)]
struct Edit {
    kind: u8,
    pos: u16,
    ch: char,
}

fn apply_edit(src: &str, e: &Edit) -> String {
    let chars: Vec<char> = src.chars().collect();
    let pick = |n: usize| (e.pos as usize * n) >> 16;
    let ws: Vec<usize> = chars.iter().enumerate().filter(|(_, c)| c.is_whitespace()).map(|(i, _)| i).collect();
    let mut out = chars.clone();
    match e.kind % 8 {
        // whitespace edits: duplicate / delete / exchange one whitespace character (wherever it is:
        // between tokens, inside a string literal, inside a comment)
        0 if !ws.is_empty() => {
            let i = ws[pick(ws.len())];
            out.insert(i, chars[i]);
        },
        1 if !ws.is_empty() => {
            out.remove(ws[pick(ws.len())]);
        },
        2 if !ws.is_empty() => {
            let i = ws[pick(ws.len())];
            out[i] = if chars[i] == ' ' { '\t' } else { ' ' };
        },
        3 => out.insert(pick(chars.len() + 1), ' '),
        4 if !chars.is_empty() => {
            out.remove(pick(chars.len()));
        },
        5 if !chars.is_empty() => {
            let i = pick(chars.len());
            out.insert(i, chars[i]);
        },
        6 if !chars.is_empty() => {
            let i = pick(chars.len());
            let c = chars[i];
            out[i] = if c.is_uppercase() { c.to_lowercase().next().unwrap_or(c) } else { c.to_uppercase().next().unwrap_or(c) };
        },
        _ => out.insert(pick(chars.len() + 1), e.ch),
    }
    out.into_iter().collect()
}

/// Deserialisation is a function of the string alone: a sequence of closely related strings
/// (one base program and successive small edits of it, then the base again) deserialised one after
/// the other on one thread gives, for each of them, what precompiling that string gives.
fn check_history(srcs: &[String], l: &mut Local) -> Outcome {
    for (i, s) in srcs.iter().enumerate() {
        if let Err(mut f) = check_node(s, l) {
            // does the string fail on its own as well? then it is not a history effect
            f.case = json!({"kind": "history", "srcs": srcs[..=i].to_vec()});
            f.signature = format!("{} (in a sequence of related strings)", f.signature);
            return Err(f);
        }
    }
    if srcs.len() >= 3 {
        l.label("sequence of >= 3 related strings");
    }
    Ok(())
}

fn arb_history() -> BoxedStrategy<Vec<String>> {
    let edit = (0u8..8, any::<u16>(), prop_oneof![select(vec![' ', '\t', '\n', 'a', '1', '"', '\\', '(', ')', ',', ';', '+', '=', '/', '*', 'é']), any::<char>()])
        .prop_map(|(kind, pos, ch)| Edit { kind, pos, ch });
    (programs::arb_program(4), proptest::collection::vec((edit, any::<bool>()), 1..6))
        .prop_map(|(p, edits)| {
            let mut out = vec![p.src.clone()];
            for (e, cumulative) in edits {
                let from = if cumulative { out.last().unwrap().clone() } else { p.src.clone() };
                out.push(apply_edit(&from, &e));
            }
            out.push(p.src);
            out
        })
        .boxed()
}

/// (i) deserialising an expression from a string == precompiling that string.
fn check_node(src: &str, l: &mut Local) -> Outcome {
    let built = match vcore::catch(|| evalexpr::build_operator_tree::<DefaultNumericTypes>(src)) {
        Ok(b) => b,
        Err(_) => {
            l.label("panic handed to C01");
            return Ok(());
        },
    };
    match &built {
        Ok(t) => {
            if adapt::tree_size(t) >= 3 {
                l.label("builds to a tree with >= 3 nodes");
                l.nontrivial_key(src);
            }
        },
        Err(_) => {
            l.label("precompilation fails");
            l.nontrivial_key(src);
        },
    }
    // no format in between: serde's own &str deserializer
    let direct = vcore::catch(|| {
        let de: serde::de::value::StrDeserializer<serde::de::value::Error> = src.into_deserializer();
        Tree::deserialize(de)
    });
    let direct = match direct {
        Ok(d) => d,
        Err(p) => return fail(format!("C16/panic {}", p.signature()), "no panic", p.message, src_case(src), src.len()),
    };
    match (&built, &direct) {
        (Ok(a), Ok(b)) => {
            if !tree_same(a, b) {
                return fail("C16/deserialized tree differs from the precompiled tree", format!("{:?}", a), format!("{:?}", b), src_case(src), src.len());
            }
        },
        (Err(e), Err(m)) => {
            if e.to_string() != m.to_string() {
                return fail("C16/deserialization fails with a different message", e.to_string(), m.to_string(), src_case(src), src.len());
            }
        },
        (Ok(_), Err(m)) => return fail("C16/deserialization fails although precompilation succeeds", "Ok(tree)", m.to_string(), src_case(src), src.len()),
        (Err(e), Ok(_)) => return fail("C16/deserialization succeeds although precompilation fails", e.to_string(), "Ok(tree)", src_case(src), src.len()),
    }
    // the borrowed-string route (visit_borrowed_str) and a reader-based route (transient visit_str
    // from serde_json's io reader): a visitor may implement each of them separately
    let borrowed: Result<Tree, serde::de::value::Error> = Tree::deserialize(serde::de::value::BorrowedStrDeserializer::new(src));
    match (&built, &borrowed) {
        (Ok(a), Ok(b)) if tree_same(a, b) => {},
        (Err(e), Err(m)) if e.to_string() == m.to_string() => {},
        _ => {
            return fail(
                "C16/deserialization from a borrowed string differs",
                format!("{:?}", built.as_ref().map(|_| "tree").map_err(|e| e.to_string())),
                format!("{:?}", borrowed.as_ref().map(|_| "tree").map_err(|e| e.to_string())),
                src_case(src),
                src.len(),
            )
        },
    }
    // through the in-memory data-model format
    let c = content::to_content(src).expect("a str serialises");
    let via_content: Result<Tree, content::Error> = content::from_content(c);
    match (&built, &via_content) {
        (Ok(a), Ok(b)) if tree_same(a, b) => {},
        (Err(e), Err(m)) if e.to_string() == m.to_string() => {},
        _ => {
            return fail(
                "C16/deserialization through the data-model format differs",
                format!("{:?}", built.as_ref().map(|_| "tree").map_err(|e| e.to_string())),
                format!("{:?}", via_content.as_ref().map(|_| "tree").map_err(|e| e.to_string())),
                src_case(src),
                src.len(),
            )
        },
    }
    // through RON, the format of evalexpr's own serde tests (its string escaping and its error type)
    if let Ok(ron_text) = ron::to_string(src) {
        let via_ron: Result<Tree, ron::error::SpannedError> = ron::from_str(&ron_text);
        let ok = match (&built, &via_ron) {
            (Ok(a), Ok(b)) => tree_same(a, b),
            (Err(e), Err(m)) => m.code.to_string() == e.to_string(),
            _ => false,
        };
        if !ok {
            return fail(
                "C16/deserialization through RON differs",
                format!("{:?}", built.as_ref().map(|_| "tree").map_err(|e| e.to_string())),
                format!("{:?}", via_ron.as_ref().map(|_| "tree").map_err(|e| e.code.to_string())),
                src_case(src),
                src.len(),
            );
        }
    }
    // through serde_json's string encoding
    let encoded = serde_json::to_string(src).expect("a str serialises to JSON");
    let via_json: Result<Tree, serde_json::Error> = serde_json::from_str(&encoded);
    let via_reader: Result<Tree, serde_json::Error> = serde_json::from_reader(encoded.as_bytes());
    match (&via_json, &via_reader) {
        (Ok(a), Ok(b)) if tree_same(a, b) => {},
        (Err(a), Err(b)) if a.to_string() == b.to_string() => {},
        _ => {
            return fail(
                "C16/deserialization from a JSON reader differs from deserialization from a JSON string",
                format!("{:?}", via_json.as_ref().map(|_| "tree").map_err(|e| e.to_string())),
                format!("{:?}", via_reader.as_ref().map(|_| "tree").map_err(|e| e.to_string())),
                src_case(src),
                src.len(),
            )
        },
    }
    match (&built, &via_json) {
        (Ok(a), Ok(b)) if tree_same(a, b) => {},
        // serde_json appends " at line L column C"
        (Err(e), Err(m)) if m.to_string().starts_with(&e.to_string()) => {},
        _ => {
            return fail(
                "C16/deserialization through JSON differs",
                format!("{:?}", built.as_ref().map(|_| "tree").map_err(|e| e.to_string())),
                format!("{:?}", via_json.as_ref().map(|_| "tree").map_err(|e| e.to_string())),
                src_case(src),
                src.len(),
            )
        },
    }
    Ok(())
}

fn ctx_case(c: &Ctx) -> J {
    json!({"kind": "context", "ctx": common::ctx_to_json(c)})
}

fn all_finite(c: &Ctx) -> bool {
    fn fin(v: &refmodel::value::RV) -> bool {
        match v {
            refmodel::value::RV::Float(f) => f.is_finite(),
            refmodel::value::RV::Tuple(t) => t.iter().all(fin),
            _ => true,
        }
    }
    c.vars.values().all(fin)
}

/// (ii) a context serialises and deserialises to a context with identical variables and builtin
/// switch and without functions.
fn check_context(c: &Ctx, l: &mut Local) -> Outcome {
    let log = new_log();
    let real: HCtx = build_hashmap(c, &log);
    let var_probes: Vec<String> = c.vars.keys().cloned().chain(["zzz".to_string()]).collect();
    let fn_probes: Vec<String> = c.funcs.keys().cloned().chain(["f".to_string(), "min".to_string()]).collect();
    let mut expected = c.clone();
    expected.funcs.clear();
    let tags: std::collections::BTreeSet<_> = c.vars.values().map(|v| v.tag()).collect();
    let has_float = c.vars.values().any(|v| matches!(v, refmodel::value::RV::Float(_)));
    let has_tuple = c.vars.values().any(|v| matches!(v, refmodel::value::RV::Tuple(_)));
    if c.vars.len() >= 3 && tags.len() >= 3 && has_float && has_tuple {
        l.label(">= 3 variables of >= 3 types including a float and a tuple");
        l.nontrivial_key(&c.describe());
    }
    if !c.funcs.is_empty() {
        l.label("context has user functions");
    }
    let verify = |back: &HCtx, route: &str| -> Outcome {
        let obs = observe(back, &var_probes, &fn_probes);
        take_log(&log);
        if let Some(d) = state_diff(&obs, &expected) {
            return fail(format!("C16/context round trip ({}) changes the context", route), expected.describe(), d, ctx_case(c), c.vars.len());
        }
        // probed with builtins switched off on a copy: a user function named like a builtin must be
        // gone, whichever layer answers for builtins while they are enabled
        let mut probe = back.clone();
        if probe.set_builtin_functions_disabled(true).is_err() {
            return Ok(());
        }
        for name in c.funcs.keys() {
            match probe.call_function(name, &evalexpr::Value::Int(1)) {
                Err(EvalexprError::FunctionIdentifierNotFound(n)) if &n == name => {},
                other => {
                    return fail(
                        format!("C16/context round trip ({}) resolves a user function", route),
                        format!("FunctionIdentifierNotFound({})", name),
                        format!("{:?}", other),
                        ctx_case(c),
                        c.vars.len(),
                    )
                },
            }
        }
        Ok(())
    };
    // exact in-memory data-model format
    let r = vcore::catch(|| -> Result<HCtx, String> {
        let content = content::to_content(&real).map_err(|e| format!("serialize: {}", e))?;
        content::from_content::<HCtx>(content).map_err(|e| format!("deserialize: {}", e))
    });
    match r {
        Err(p) => return fail(format!("C16/panic {}", p.signature()), "no panic", p.message, ctx_case(c), c.vars.len()),
        Ok(Err(e)) => return fail("C16/context round trip (data model) fails", "Ok(context)", e, ctx_case(c), c.vars.len()),
        Ok(Ok(back)) => verify(&back, "data model")?,
    }
    // serde_json (text): exact for finite floats with float_roundtrip
    if all_finite(c) {
        l.label("JSON round trip (all floats finite)");
        let r = vcore::catch(|| -> Result<HCtx, String> {
            let text = serde_json::to_string(&real).map_err(|e| format!("serialize: {}", e))?;
            serde_json::from_str::<HCtx>(&text).map_err(|e| format!("deserialize: {} from {}", e, text))
        });
        match r {
            Err(p) => return fail(format!("C16/panic {}", p.signature()), "no panic", p.message, ctx_case(c), c.vars.len()),
            Ok(Err(e)) => return fail("C16/context round trip (JSON) fails", "Ok(context)", e, ctx_case(c), c.vars.len()),
            Ok(Ok(back)) => verify(&back, "JSON")?,
        }
    }
    // RON (text), the format of evalexpr's own serde tests: finite floats only (RON prints floats
    // in decimal; what it does with NaN payloads and infinities is its own business)
    if all_finite(c) {
        l.label("RON round trip (all floats finite)");
        let r = vcore::catch(|| -> Result<HCtx, String> {
            let text = ron::to_string(&real).map_err(|e| format!("serialize: {}", e))?;
            ron::from_str::<HCtx>(&text).map_err(|e| format!("deserialize: {} from {}", e, text))
        });
        match r {
            Err(p) => return fail(format!("C16/panic {}", p.signature()), "no panic", p.message, ctx_case(c), c.vars.len()),
            Ok(Err(e)) => return fail("C16/context round trip (RON) fails", "Ok(context)", e, ctx_case(c), c.vars.len()),
            Ok(Ok(back)) => verify(&back, "RON")?,
        }
    }
    // a value alone round-trips too
    for (k, v) in &c.vars {
        let real_v = adapt::from_rv(v);
        let back: Result<adapt::Val, _> = content::to_content(&real_v).and_then(content::from_content);
        match back {
            Ok(b) if adapt::to_rv(&b).same(v) => {},
            other => {
                return fail("C16/value round trip (data model) changes the value", v.canon(), format!("{:?}", other), ctx_case(c), k.len());
            },
        }
    }
    Ok(())
}

fn arb_context() -> BoxedStrategy<Ctx> {
    let names = vec!["a", "A", "b", "c", "ä", "Ä", "x y", "", "日本", "min", "Min", "a.b", "\"q\"", "n0", "N0", "n1", "n2", "ß", "SS", "ss"];
    (
        proptest::collection::vec(
            (
                select(names),
                prop_oneof![
                    3 => gen::arb_float().prop_map(refmodel::value::RV::Float),
                    3 => proptest::collection::vec(gen::arb_value(), 0..4).prop_map(refmodel::value::RV::Tuple),
                    2 => gen::arb_int().prop_map(refmodel::value::RV::Int),
                    2 => gen::arb_text().prop_map(refmodel::value::RV::Str),
                    1 => any::<bool>().prop_map(refmodel::value::RV::Bool),
                    1 => Just(refmodel::value::RV::Empty),
                    2 => gen::arb_value(),
                ],
            ),
            0..10,
        ),
        proptest::collection::vec((select(vec!["f", "g", "min", "ä"]), gen::arb_uf()), 0..3),
        any::<bool>(),
    )
        .prop_map(|(vars, funcs, disabled)| {
            let mut c = Ctx::new(Kind::HashMap);
            for (n, v) in vars {
                c.vars.insert(n.to_string(), v);
            }
            for (n, f) in funcs {
                c.funcs.insert(n.to_string(), f);
            }
            c.builtins_disabled = disabled;
            c
        })
        .boxed()
}

fn run(rep: &Report) {
    rep.set_rule(
        "(i) strings (rendered ASTs, token soups, raw Unicode, planted defects, lexical errors): Node::deserialize from \
         serde's own &str and borrowed-str deserializers, from an exact in-memory data-model format, from RON and from serde_json's string encoding (string and reader) \
         must give Ok(tree == build_operator_tree(s)) or fail with the same message; the same for every member of a sequence of related strings (a base program, up to five small edits of it -- whitespace duplicated / deleted / exchanged anywhere including inside string literals and comments, a character inserted / deleted / doubled / case-toggled -- and the base again) deserialised one after the other on one thread. (ii) contexts reachable through \
         the API (random variable maps over all six value types with +-0.0, subnormals, +-inf, NaN, nested tuples, \
         Unicode and empty names, both switch values, with and without user functions): serialise -> deserialise \
         through the exact data-model format (bit-exact by construction) and, when all floats are finite, through \
         RON and serde_json with float_roundtrip; also expressions and contexts of scaled size (1..400 elements / variables); the result has identical variables (NaN <-> NaN), identical switch, and \
         resolves no user function. Non-trivial: distinct strings that build to >= 3 nodes or fail; distinct contexts \
         with >= 3 variables of >= 3 types including a float and a tuple.",
    );
    rep.assume("D13: any NaN equals any NaN; JSON cannot represent non-finite floats, such contexts go through the data-model format only");
    rep.assume("RON through a vendored ron 0.8.1 (the format of evalexpr's own serde tests); the property statement is format independent");
    let fixed = ["3", "4+4", "21^(2*2)--3>5||!true", "&", "[\"5==5\"]", "", "(", "a = 1; a", "\"s\"", "\"", "1, 2; 3", "/*", "a/**/b"];
    common::enumerate(rep, "fixed-strings", fixed.len() as u64, 1, &|i, l| check_node(fixed[i as usize], l));
    let n = rep.tier.pick(300_000u64, 10_000_000);
    let depth = rep.tier.pick(4u32, 7);
    common::random_search(rep, "strings", 160, n, &move || programs::arb_program(depth), &|p: &programs::Program, l| {
        l.sample(3, || json!(vcore::clip(&p.src, 120)));
        check_node(&p.src, l)
    });
    // histories: related strings one after the other on one thread (a memo keyed by anything less
    // than the exact string would answer one of them with another's tree)
    let fixed_h: Vec<Vec<String>> = vec![
        vec!["\"a b\"".into(), "\"a  b\"".into(), "\"a b\"".into()],
        vec!["len(\" a\")".into(), "len(\"   a\")".into()],
        vec!["a + B".into(), "A + b".into(), "a+B".into()],
        vec!["1 /* x */ + 2".into(), "1 /* y */ + 2".into(), "1 /* x */ - 2".into()],
    ];
    common::enumerate(rep, "fixed-histories", fixed_h.len() as u64, 1, &|i, l| check_history(&fixed_h[i as usize], l));
    let nh = rep.tier.pick(60_000u64, 2_000_000);
    common::random_search(rep, "histories", 162, nh, &arb_history, &|h: &Vec<String>, l| {
        l.sample(2, || json!(h.iter().map(|s| vcore::clip(s, 60)).collect::<Vec<_>>()));
        check_history(h, l)
    });
    // scale: expressions and contexts whose size crosses typical capacities (wide tuples, long
    // chains, deep nesting, long identifiers and strings; contexts with 1..400 variables of all types)
    let scaled = gen::all_scaled();
    common::enumerate(rep, "scaled-strings", scaled.len() as u64, 4, &|i, l| {
        let s = &scaled[i as usize];
        let toks = refmodel::ast::render_tokens(&s.ast, &mut refmodel::ast::Minimal);
        let src = refmodel::tok::render_spaced(&toks);
        if src.chars().count() > 4096 {
            return Ok(());
        }
        l.label("scaled expression");
        check_node(&src, l)
    });
    let sizes = gen::SCALE_SIZES;
    common::enumerate(rep, "scaled-contexts", sizes.len() as u64 * 2, 4, &|i, l| {
        let n = sizes[(i % sizes.len() as u64) as usize];
        let mut c = Ctx::hashmap();
        c.builtins_disabled = i / sizes.len() as u64 == 1;
        for k in 0..n {
            let v = match k % 6 {
                0 => refmodel::value::RV::Int(k as i64 - 3),
                1 => refmodel::value::RV::Float(k as f64 * 0.25 - 1.0),
                2 => refmodel::value::RV::Str(format!("s{}", "x".repeat(k % 40))),
                3 => refmodel::value::RV::Bool(k % 4 == 3),
                4 => refmodel::value::RV::Tuple((0..(k % 20)).map(|j| refmodel::value::RV::Int(j as i64)).collect()),
                _ => refmodel::value::RV::Empty,
            };
            c.vars.insert(format!("v{}", k), v);
        }
        l.label("context with many variables");
        check_context(&c, l)
    });
    let nc = rep.tier.pick(150_000u64, 6_000_000);
    common::random_search(rep, "contexts", 161, nc, &arb_context, &|c: &Ctx, l| {
        l.sample(3, || json!(c.describe()));
        check_context(c, l)
    });
}

fn replay(case: &J, rep: &Report) {
    let mut l = Local::default();
    l.evaluations = 1;
    let r = match case["kind"].as_str() {
        Some("node") => check_node(case["src"].as_str().unwrap_or_else(|| common::bad_case("src")), &mut l),
        Some("history") => {
            let srcs: Vec<String> = case["srcs"]
                .as_array()
                .unwrap_or_else(|| common::bad_case("srcs"))
                .iter()
                .map(|s| s.as_str().unwrap_or_else(|| common::bad_case("srcs")).to_string())
                .collect();
            check_history(&srcs, &mut l)
        },
        Some("context") => {
            let c = common::ctx_from_json(&case["ctx"]).unwrap_or_else(|| common::bad_case("ctx"));
            check_context(&c, &mut l)
        },
        _ => common::bad_case("kind"),
    };
    rep.merge(l);
    if let Err(f) = r {
        rep.fail("replay", &f.signature, f.case, f.expected, f.actual, f.size);
    }
}

fn main() {
    let args: Vec<String> = std::env::args().skip(1).collect();
    let code = match args.first().map(|s| s.as_str()) {
        Some("replay") if args.len() == 2 => {
            let j = vcore::read_json(Path::new(&args[1])).unwrap_or_else(|e| {
                eprintln!("HARNESS ERROR: {}", e);
                std::process::exit(2)
            });
            if std::env::var("VERIF_EVIDENCE_OUT").is_err() {
                std::env::set_var("VERIF_EVIDENCE_OUT", vcore::verif_root().join("out").join("replay_C16.json"));
            }
            let mut rep = Report::new("C16", Tier::Quick, vcore::seed_from_env());
            rep.strict = true;
            rep.set_rule("replay of one saved case");
            vcore::on_big_stack(|| replay(&j["case"], &rep));
            rep.finish()
        },
        Some("quick") | Some("thorough") | None => {
            let tier = if args.first().map(|s| s.as_str()) == Some("thorough") { Tier::Thorough } else { Tier::Quick };
            let rep = Report::new("C16", tier, vcore::seed_from_env());
            vcore::on_big_stack(|| {
                // saved replays first
                let dir = vcore::verif_root().join("replays").join("C16");
                if let Ok(rd) = std::fs::read_dir(&dir) {
                    let mut files: Vec<_> = rd.filter_map(|e| e.ok()).map(|e| e.path()).filter(|p| p.extension().map_or(false, |x| x == "json")).collect();
                    files.sort();
                    for f in files {
                        if let Ok(j) = vcore::read_json(&f) {
                            replay(&j["case"], &rep);
                        }
                    }
                }
                run(&rep)
            });
            rep.finish()
        },
        _ => {
            eprintln!("usage: c16 [quick|thorough] | c16 replay <file>");
            2
        },
    };
    std::process::exit(code);
}
