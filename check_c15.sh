#!/bin/bash
# C15: thread-sharing check in its own crate; the crate type-checks iff the eight listed types
# are Send + Sync.   check_c15.sh build | quick | thorough | replay <file>
set -u
ROOT="$(cd "$(dirname "${BASH_SOURCE[0]}")" && pwd)"
cd "$ROOT" || exit 2
export CARGO_NET_OFFLINE=true
export VERIF_ROOT="$ROOT"
export RUST_BACKTRACE=0
mkdir -p out evidence
MODE="${1:-quick}"
LOG=out/build_c15.log

# First make sure the rest of the harness builds: a failure there is not about Send/Sync.
( cd harness && cargo build --profile checked -p adapt ) >out/build_c15_adapt.log 2>&1
ADAPT=$?
( cd harness && cargo build --profile checked -p c15 ) >"$LOG" 2>&1
BUILD=$?
if [ "$MODE" = build ]; then
    [ $BUILD -eq 0 ] || tail -20 "$LOG"
    exit $BUILD
fi
if [ $BUILD -ne 0 ]; then
    # D14: a build failure is a C15 violation only for E0277 Send/Sync diagnostics about the
    # listed types; every other build failure is inconclusive.
    if [ $ADAPT -eq 0 ] && grep -E "E0277" "$LOG" >/dev/null \
       && grep -E "cannot be (sent|shared) between threads safely" "$LOG" >/dev/null; then
        mkdir -p out/violations
        REPLAY="$ROOT/out/violations/C15_compile.json"
        python3 - "$LOG" "$REPLAY" <<'PY'
import json,sys
log=open(sys.argv[1]).read()
json.dump({"property":"C15","subcheck":"type-check","signature":"C15/a listed type is not Send + Sync (does not type-check)","case":{"kind":"compile"},"compiler_output":log[-8000:]},open(sys.argv[2],"w"),indent=1)
PY
        cat > evidence/C15.json <<JSON
{
 "property_id": "C15",
 "tier": "$MODE",
 "seed": ${VERIF_SEED:-0},
 "level": "exploration",
 "coverage": {
  "evaluations": 8,
  "distinct_nontrivial": 8,
  "rule": "the eight Send + Sync obligations are decided by the type checker; at least one failed (see replay file)",
  "samples": ["see out/build_c15.log"],
  "exhaustive": true
 },
 "assumptions": [],
 "wall_s": 0.0,
 "violations": 1
}
JSON
        grep -E "^error" -A 8 "$LOG" | head -40
        echo "VIOLATION property=C15 replay=$REPLAY"
        exit 1
    fi
    tail -30 "$LOG"
    echo "INCONCLUSIVE: the C15 harness does not build against /repo"
    exit 2
fi

BIN=harness/target/checked/c15
LIMIT="${VERIF_WATCHDOG_S:-7000}"
if [ "$MODE" = replay ]; then
    FILE="${2:-}"
    if grep -q '"kind": *"compile"' "$FILE" 2>/dev/null; then
        echo "compile-time finding: the harness builds now, so the finding does not reproduce"
        exit 0
    fi
    timeout --signal=KILL "$LIMIT" "$BIN" replay "$FILE"
    rc=$?
else
    timeout --signal=KILL "$LIMIT" "$BIN" "$MODE"
    rc=$?
fi
if [ $rc -ne 0 ] && [ $rc -ne 1 ] && [ $rc -ne 2 ]; then
    echo "INCONCLUSIVE: c15 terminated abnormally (exit $rc)"
    exit 2
fi
exit $rc
